#!/usr/bin/env python3
"""Renders sensitivity matrices (tools/mutant_matrix.sh output) as the markdown table of DESIGN.md section 9.
usage: matrix_to_md.py <matrix.tsv> [...]  (later files override earlier ones per (mutant, check))"""
import sys, re, json, os

def norm(name):
    m = None
    parts = [p for p in re.split(r'[-/]', name) if p]
    # last two meaningful components: <dir>, <A|B>
    v = parts[-1] if parts[-1] in ('A', 'B') else 'A'
    d = parts[-2] if parts[-1] in ('A', 'B') else parts[-1]
    return f'{d}-{v}'

res = {}
for f in sys.argv[1:]:
    for l in open(f):
        p = l.rstrip('\n').split('\t')
        if len(p) < 2:
            continue
        n = norm(p[0])
        d = res.setdefault(n, {})
        if p[1] in ('APPLY-FAIL', 'BUILD-FAIL'):
            d['_'] = p[1]; continue
        d.pop('_', None)
        for c in p[1:]:
            q = c.split(':')
            if len(q) >= 2 and q[1] != '2':
                d[q[0]] = (int(q[1]), q[2] if len(q) > 2 else '', q[3] if len(q) > 3 else '')

def prop_of(n):
    m = re.match(r'(R\d)?(C\d\d|F\d)', n)
    k = m.group(2)
    return {'F1': 'C10', 'F2': 'C10', 'F3': 'C11'}.get(k, k)

print('| seeded change | breaks | own check | caught by (clause) | replay reproduces |')
print('|---|---|---|---|---|')
missed = []
for n in sorted(res, key=lambda x: (prop_of(x), x)):
    d = res[n]; own = prop_of(n)
    if '_' in d:
        print(f'| {n} | {own} | {d["_"]} | | |'); continue
    caught = [(k, v) for k, v in sorted(d.items()) if v[0] == 1]
    o = d.get(own)
    own_s = 'caught' if o and o[0] == 1 else ('**missed**' if o else 'n/a')
    others = ', '.join(f'{k} ({v[1]})' for k, v in caught)
    rp = 'yes' if caught and all(v[2] in ('r1', '') for k, v in caught) else ('no: ' + ','.join(k for k, v in caught if v[2] not in ('r1', '')) if caught else '')
    crashes = [k for k, v in d.items() if v[0] not in (0, 1)]
    if crashes: others += ' — harness exit≠0/1 in ' + ','.join(crashes)
    print(f'| {n} | {own} | {own_s} | {others or "—"} | {rp} |')
    if not caught: missed.append(n)
print()
print('not caught by any check:', ', '.join(missed) or 'none')

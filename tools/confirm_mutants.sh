#!/bin/bash
# Confirms each seeded change independently in a scratch worktree:
#  (1) demo passes on the pristine tree, (2) with the patch: builds with all features,
#  the repository's own suite still passes (91 tests + doctests), (3) demo fails.
# usage: confirm_mutants.sh <out.tsv> <dir-with-X.patch.diff-and-demo>...
set -u
OUT="$1"; shift
WT=${CONFIRM_WT:-/tmp/confirm-wt}
export CARGO_NET_OFFLINE=true
export CARGO_INCREMENTAL=0   # an incremental-compilation ICE of rustc 1.95 once turned a demo into a false FAIL
if [ ! -d $WT ]; then git -C /repo worktree add --detach $WT HEAD >/dev/null 2>&1 || exit 2; fi
git -C $WT checkout -q --detach "$(git -C /repo rev-parse HEAD)"; git -C $WT checkout -q -- . ; rm -f $WT/tests/demo_*.rs
export CARGO_TARGET_DIR=${CONFIRM_TARGET:-/tmp/confirm-target}
: > "$OUT"
for D in "$@"; do
  for V in A B; do
    P="$D/$V.patch.diff"; [ -f "$P" ] || continue
    id=$(basename "$D")
    demo=$(ls "$D"/demo_*_"$V".rs 2>/dev/null | head -1)
    [ "${id:0:1}" = "F" ] && demo=""
    name="$id-$V"
    cd $WT && git checkout -q -- . && rm -f tests/demo_*.rs && mkdir -p tests
    pre="-"; suite="-"; post="-"; build="-"
    if [ -n "$demo" ]; then
      cp "$demo" tests/
      t=$(basename "$demo" .rs)
      if nice cargo test --offline --all-features --test "$t" >$WT.log 2>&1; then pre="pass"; else pre="FAIL"; fi
      rm -f tests/demo_*.rs
    fi
    if git apply "$P" 2>/dev/null; then
      if nice cargo build --offline --all-features >$WT.log 2>&1; then build="ok"; else build="FAIL"; fi
      r=$(nice cargo test --workspace --no-fail-fast --offline 2>&1 | grep -E "^test result" | tr '\n' ' ')
      suite=$(echo "$r" | sed 's/test result: //g; s/; 0 measured; 0 filtered out//g; s/finished in [0-9.]*s//g')
      if [ -n "$demo" ]; then
        cp "$demo" tests/
        if nice cargo test --offline --all-features --test "$t" >$WT.log 2>&1; then post="pass(!)"; else post="fail"; fi
        rm -f tests/demo_*.rs
      fi
    else
      build="APPLY-FAIL"
    fi
    echo -e "$name\tdemo_pristine=$pre\tbuild=$build\tsuite=$suite\tdemo_patched=$post" >> "$OUT"
  done
done
cd $WT && git checkout -q -- . ; rm -f tests/demo_*.rs
echo DONE >> "$OUT"

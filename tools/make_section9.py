#!/usr/bin/env python3
"""Fills DESIGN.md section 9 from tools/section9_text.md and the matrices.
usage: make_section9.py <matrix.tsv>..."""
import subprocess, sys, re
table = subprocess.run([sys.executable, '/verif/tools/matrix_to_md.py'] + sys.argv[1:], capture_output=True, text=True).stdout
text = open('/verif/tools/section9_text.md').read().replace('@@TABLE@@', table.strip())
p = '/verif/DESIGN.md'; s = open(p).read()
a = s.index('## 9. Sensitivity: which checks catch which seeded changes')
b = s.index('## 10. False alarms met while building')
s = s[:a] + '## 9. Sensitivity: which checks catch which seeded changes\n\n' + text + '\n\n---------------------------------------------------------------------------\n\n' + s[b:]
open(p, 'w').write(s)
print('section 9 written,', table.count('\n'), 'table lines')

#!/bin/bash
# usage: try_mutant.sh <patch.diff> <ID> [<ID>...]   (env TIER=quick|thorough)
# Applies the patch to /repo, runs the listed checks, always restores /repo.
set -u
P="$1"; shift
cd /repo || exit 2
if ! git diff --quiet; then echo "/repo not clean"; exit 2; fi
git apply "$P" || { echo "patch does not apply"; exit 2; }
trap 'git -C /repo checkout -- . ; echo "[repo restored]"' EXIT
cd /verif
for id in "$@"; do
  out=$(./check "$id" --tier "${TIER:-quick}" 2>&1); code=$?
  echo "== $id exit=$code"
  echo "$out" | grep -E "^(VIOLATION|KNOWN-FINDING|HARNESS|REPLAY-WARNING|C[0-9]+:)" | cut -c1-400 | head -8
done

#!/usr/bin/env python3
"""Regenerates /verif/MANIFEST.json from the table below (run after adding a check)."""
import json, sys

CHECKS = {
 "C01": dict(cat="exploration", ref="DESIGN.md section 3 C01",
   technique="deterministic simulation (fault-free configuration): seeded multi-user worlds, honest routing, seeded interleavings, in-memory vs codec delivery; Model A + postconditions as oracle",
   text="Seeded simulation of honest registration+login worlds over all 44 suite instantiations (20 OPRF x KE combinations with SimKsf and with the shipped Identity KSF, 4 with Argon2), production build (cfg(test) off): every step must succeed, keys agree, export key and server public key equal registration's. Sampling over parameter classes with a covering schedule; not exhaustive.",
   note="trusted: curve crates, sha2, serde codecs; the harness' adapter and Model A; inputs stay within the 65535-byte limit (oversize is C12)"),

 "C02": dict(cat="exploration", ref="DESIGN.md section 3 C02",
   technique="deterministic simulation: seeded worlds with near-miss password families at login start/finish/both, cross-fed finalizations; Model A (symbolic) as oracle",
   text="Seeded worlds per suite: one registration, one honest login, then a near-miss family of wrong passwords (bit flips, prefixes/extensions, case, whitespace, NUL twins, empty, length-prefix shapes, 65535-byte last-byte twins, digests of the password) applied at start only / finish only / both, one attempt in eight with an unencodable 65536-byte client context on top, one world in seven under a KSF instance that ignores its input; the client must return exactly InvalidLoginError and every finalization that exists (plus zero/random) must fail on that server state.",
   note="password pairs are sampled, each pair is deterministic; error kind demanded for passwords and identities within the 65535-byte limit and for every context"),
 "C03": dict(cat="fault_enumeration", ref="DESIGN.md section 3 C03",
   technique="deterministic simulation with enumerated message corruption: every single-bit/single-byte substitution of the genuine finalization, XOR-cancelling pairs, transpositions, constants, random and cross-session finalizations delivered to every pending server state; Model A as oracle",
   text="For every pending server state of a seeded world (two sessions of one user, another user, wrong-password, fake record, abandoned) the complete family of 8*Nh bit flips and 255*Nh byte substitutions of the genuine finalization is delivered, plus structured forgeries (incl. every proper prefix and suffix of the genuine MAC padded with 00/FF) and every other session's finalization; a finalization of the right length must reach the final step; only the matching one may succeed and must return the client's key.",
   note="the substitution family is exhaustive per state; states/worlds are seeded samples"),
 "C04": dict(cat="fault_enumeration", ref="DESIGN.md section 3 C04",
   technique="deterministic simulation with enumerated message corruption of the credential response at every offset, field splices from other sessions/users/servers/fake records, re-randomised fields, reflection; Model A as oracle",
   text="For sampled honest logins every offset of the credential response is substituted (quick: 8 bit flips + 1 multi-bit value; thorough: all 255 values), every proper prefix/suffix of each byte field padded with 00/FF, all 255 other values of the first and last byte of both group-element fields, every field and field pair is spliced from six kinds of donor responses, fields are re-randomised/zeroed/rotated, XOR-cancelling pairs and transpositions are applied, the request's own blinded element is reflected, and one substitution per offset is made in the response's bincode and JSON encodings and delivered through that codec; the client must reject all of them and accept the genuine response delivered last.",
   note="offset x value exhaustive only in the thorough tier; logins sampled; a corrupted delivery is identified by its bytes, so an accepted alias encoding is a violation (found and fixed F4 on the serde path, see known_findings.json)"),
 "C05": dict(cat="exploration", ref="DESIGN.md section 3 C05",
   technique="deterministic simulation: seeded parameter triples (registration / server login / client login) incl. boundary-shifted splits and crafted length-prefix collisions; Model A computes effective identities and decides accept/reject",
   text="Seeded worlds over identity/context/credential-id triples: boundary-shifted splits of one concatenation, explicit-default spellings, empty vs absent, one-sided identities, 255/256/65535 lengths, identities of 65536/70000 bytes against the default and against their 65535-byte prefix, whitespace twins, twins that would collide under a 1-byte or missing length prefix, and 28 credential-id pairs (prefix, whitespace/NUL/case twins, long tails, digests, permuted hash blocks). Agreement must succeed, any disagreement must fail at the client.",
   note="sampled; split positions sampled per world"),
 "C06": dict(cat="exploration", ref="DESIGN.md section 3 C06",
   technique="deterministic simulation with a seam fault: server static key swapped under an unchanged OPRF seed (stolen password file served elsewhere), direct and SimHsm keys; Model A + reported-key postconditions",
   text="A record registered at S is served by S' built through the public decoder from seed(S) and another server's static key, and by an unrelated server; the client must refuse; registration and every successful login must report exactly S's public key; one-sided, explicit-default and long identities; and in half of the externally-held-key worlds the key service rotates the key behind the setup afterwards (later registrations must still be told the setup's own key, logins under the rotated key must be refused).",
   note="sampled worlds; ~900 foreign-key logins per quick run"),
 "C07": dict(cat="exploration", ref="DESIGN.md section 3 C07",
   technique="deterministic simulation of an adversarial network: every routing of requests/responses/finalizations inside a bounded population, executed in seeded random topological orders with shared per-party RNGs; Model A, key agreement/distinctness, schedule-independence (two interleavings compared) and bounded liveness after faults stop",
   text="Per world 50 server sessions x 204 client finishes x all finalization deliveries (replay from an earlier day, cross-session, cross-user, wrong password, no record, two credential ids); acceptance only along matched conversations, equal keys inside a session, pairwise distinct keys across sessions, identical per-session outputs under a second interleaving, and an honest login per user completes in four steps afterwards. Plus seeded random walks: concurrent users and sessions advance at random, a quarter of the steps deviate in one random aspect (foreign message or state, other password / credential id / identities / context / KSF / setup, crash-reload), deliveries through random codecs. The adversary also assembles messages from byte ranges of observed ones (finalization pairs, responses cut at field boundaries / inside the MAC / anywhere, requests mixing two clients or followed by foreign bytes).",
   note="routing exhaustive inside the population (quick samples 1/4 of client finishes on P-384/P-521 groups); populations, passwords, tapes, orders seeded"),
 "C08": dict(cat="exploration", ref="DESIGN.md section 3 C08",
   technique="deterministic simulation of histories interleaving fake (no record) and real logins; structural/equality/non-repetition oracles over the recorded history, candidate-key unmasking with harness HKDF, Model A for client/server outcomes",
   text="Fake responses have the real length and decode; the evaluation element is equal with and without record for equal (setup, credential id, request); no other field ever repeats across the history; the fake response does not unmask under any key visible outside the call; the no-record answer draws at least Nh more bytes of tape than a with-record answer; crafted key shares (the password file's client key, the server's key) are answered or refused alike with and without the file; replayed real requests are answered freshly; with an externally held key the seam call log is the same with and without a password file; degenerate 00/FF tape prefixes; the client reports InvalidLoginError; no finalization completes a fake server state.",
   note="unpredictability is tested as non-repetition / tape dependence only"),
 "C10": dict(cat="fault_enumeration", ref="DESIGN.md section 3 C10",
   technique="fault enumeration on stored/wire bytes: truncation/extension at every length, every leading-byte value and substitutions at every offset of every element/scalar field, non-reduced scalars, on the 11 native decoders x 20 suites; oracle decode-Ok implies canonical re-encoding",
   text="Starting from valid encodings harvested from a seeded simulated run, each decoder is fed the complete families of wrong lengths (truncation, extension, one byte inserted at every offset) and field corruptions; whatever decodes must re-encode to the input bytes and have the suite's fixed length; the same for every key, OPRF element and scalar field through bincode and JSON; every valid value stored through bincode/JSON and loaded again is the same value.",
   note="families complete per harvested encoding; encodings are seeded samples; found and fixed F1/F2, confirms F4 (see known_findings.json)"),
 "C11": dict(cat="fault_enumeration", ref="DESIGN.md section 3 C11",
   technique="fault enumeration: an independently generated (Python big-integer) catalogue of invalid group elements/scalars planted in every element/scalar field of every message/state, decoded natively and through bincode and JSON; oracle decode returns Err",
   text="Identity, off-curve, out-of-range, bad-tag, non-canonical/negative/non-square ristretto, small-order Curve25519 (canonical, +p, top-bit) and zero/out-of-range/unclamped scalars x every field x 3 codecs x 20 suites; every decode must fail.",
   note="catalogue x fields exhaustive; found and fixed F3 (see known_findings.json)"),
 "C16": dict(cat="exploration", ref="DESIGN.md section 3 C16",
   technique="deterministic simulation of multi-user histories (re-registrations on shared tapes, repeated logins, two servers) with a secret-substring monitor over every byte string that entered the network or a store; Model A names the export key each login must return",
   text="Every successful login returns the registration's export key; export keys of distinct registrations (same tape, one input varied: password, user id incl. long/whitespace twins and permuted 128-byte segments, server; a fifth of the worlds under a KSF instance that ignores its input) pairwise differ; no 16-byte window of any export key, session key or password occurs in any message or password file in native, bincode or JSON form.",
   note="sampled histories; passwords are random >=16 bytes so the substring monitor is meaningful"),

 "C12": dict(cat="exploration", ref="DESIGN.md section 3 C12",
   technique="deterministic simulation with fault injection on every byte seam: seeded random and structure-preserving mutated encodings into 11 decoders x 3 codecs, decoded results pushed into the consuming protocol step, foreign well-formed items routed into every step, catalogue values planted in every field, oversize parameters; catch_unwind no-panic monitor + refusal oracle",
   text="No library call may panic or hang on random bytes, inputs of every length 0..len+8, single-bit flips of the bincode form of the stored kinds, mutated valid encodings (flip, rewrite, truncate, extend, delete, splice, field constants/swaps), planted invalid or extreme-valid group values, items of the wrong kind/session/suite delivered to any step, or parameter lengths 0..131072; lengths above 65535 must be refused by the call that takes them (identities, context) or by the finish step (password), never wrapped or truncated. The stand-alone key-pair API (PublicKey / PrivateKey / KeyPair decoders, direct and external key types, and the decoder of a server setup whose external key container is 200 bytes long) gets wrong-length, random, mutated and catalogue inputs; Argon2 instances with an explicit output length shorter/equal/longer than Nh run through registration and login. The no-panic monitor also runs over samples of all other checks' worlds.",
   note="sampled; panics inside the harness are harness errors (exit 2); abusive RNGs and allocation failure not injected"),
 "C13": dict(cat="fault_enumeration", ref="DESIGN.md section 3 C13",
   technique="crash-point enumeration in a deterministic simulation: every assignment of {none, native, bincode, JSON} reloads to the five persistence points (1024 schedules), setup reload before the k-th server op, chained permanent reloads; label-derived tapes; oracle = event log equal to the uninterrupted run",
   text="Each party's state is saved and restored through every codec at every step boundary (incl. an unknown-user login that depends on the stored fake key, direct and externally held server keys); all later messages, results and keys must equal the uninterrupted run byte for byte; the same oracle is applied to seeded random-walk workloads with random crash/reload points.",
   note="all 1024 schedules on 4 suites (64 sampled on the other 16) in quick, all on all 20 in thorough; base worlds seeded"),
 "C15": dict(cat="fault_enumeration", ref="DESIGN.md section 3 C15",
   technique="deterministic simulation with the Ksf trait as seam: SimKsf call log (count, instance, input), KSF failing at call n, KSF instance pairs at registration/login decided by Model A, same-tape registrations under two instances; real Identity and Argon2 run too",
   text="Exactly one KSF evaluation per client finish step, of the instance the caller passed (default when absent), on an Nh-byte input equal at registration and login; equal parameters succeed, different ones give InvalidLoginError, explicit default equals absent (SimKsf incl. instances whose output ignores the input, Identity, Argon2 default and non-default cost); every password-derived secret differs between two instances on identical tapes; an injected failure at call 1 surfaces as LibraryError(KsfError) without panic and a failure planned for call 2 never fires; the same (one call, failure returned, outputs byte-identical to SimKsf computing the same function on the same tapes) for a Ksf type without fields on one fixed suite.",
   note="fault index enumerated over n in {1,2} per finish step; pairs enumerated; worlds seeded"),
 "C17": dict(cat="exploration", ref="DESIGN.md section 3 C17",
   technique="deterministic simulation over the RNG seam: recorded tapes replayed equal / independent / as prefixes at every draw boundary, single-draw replacement, and a generator whose try_fill_bytes errors; values compared by role",
   text="Equal tapes give identical logs; on independent tapes every value meant to be random differs and none coincide within a run (incl. a second setup created with the same static key); for every randomised op and draw boundary k the reproduced values grow monotonically from none (k=0) to all (k=m); the hidden fake masking key is shown to be drawn by single-draw replacement, from at least Nh bytes of tape; the world up to each randomised op run twice in a row gives identical results (state kept between calls); the stand-alone key sampler KeGroup::random_sk is a function of its tape and differs on independent tapes; no op may succeed with different output when the generator reports errors; every pair of values of one call that are meant to be independently random is moved separately by some single perturbed draw.",
   note="tests tape-dependence and non-repetition, not unpredictability; sampled worlds"),
 "C18": dict(cat="fault_enumeration", ref="DESIGN.md section 3 C18",
   technique="deterministic simulation with the SecretKey trait as seam: SimHsm (raw-scalar and opaque-handle serialization) vs direct key on equal tapes compared event by event, seam call log, and the seam failing at the n-th fallible call for every op and every n",
   text="Messages, password file, login state and keys are byte-identical with the key held directly or behind the external-key interface (setup compared on seed, fake key and public key), through memory, codecs and permanent reloads, also while a stored setup whose stand-in key slot is unusable is being loaded; only public_key/diffie_hellman/clone are called while serving; each injected failure — the key's own error type or one of the library's InternalError values — is returned exactly as LibraryError(that error) (or the serde error naming it), never Ok and never a panic.",
   note="n enumerated completely per op; worlds seeded"),

 "C09": dict(cat="exploration", ref="DESIGN.md section 3 C09 and Appendix A",
   technique="deterministic simulation with recording tapes, refined step by step against an executable reference model (Model B: independent RFC 9807/9497 transcription pinned by the RFC's own vectors); witnesses from serialized states, hidden choices matched among recorded draws by value",
   text="Every registration/login message, the password file, export key, session keys, the value handed to the KSF and the pending server state are recomputed by Model B from the inputs and the random choices actually made, for honest worlds over all parameter classes (empty to 65535-byte passwords, identities > 255 bytes, one-sided identities, 65535-byte contexts), real and absent password files, SimKsf/Identity/Argon2, on all 44 suite instantiations, and for crafted-but-acceptable server inputs (replaced key shares, blinded elements, nonces, client public keys; Curve25519 small-order components and bit 255); any differing byte is a violation, as is a client that accepts/rejects differently from the specification's client.",
   note="Model B trusts curve crates (arithmetic, NIST hash-to-curve), sha2, argon2; Nseed := Nsk of the KE group; B must reproduce the 9 RFC vectors first (else exit 2)"),
 "C14": dict(cat="exploration", ref="DESIGN.md section 3 C14",
   technique="deterministic simulation comparing related runs: pairs of independent blinding tapes, one input varied at a time (credential id twins, seed, password), evaluations repeated under swapped static keys / without record / through reloads; relational oracle over all pairs + Model B's blind-free formula",
   text="Equal (password, seed, credential id, KSF) must give equal masking keys on independent blinds and any difference must give different ones; equal (seed, credential id, request) must give the same evaluation element whatever the static key, record or reload, and any difference a different one; blinded requests never repeat; the masking key equals the specification's value computed without any blind; seeds are identified by the setup that drew them (independently created servers must be unrelated) and every login request is also sent down the registration path.",
   note="'unrelated' is tested as 'not equal'; sampled worlds, all pairs inside a world"),
}

NOT_APPLICABLE = {
 "C19": "pure function of its arguments on the KeGroup API: no party, message, schedule, stored state, seam or fault in the statement; see DESIGN.md section 3 (C19)",
}

ALL = ["C%02d" % i for i in range(1, 20)]

def main():
    checks = []
    for pid in ALL:
        if pid not in CHECKS:
            continue
        c = CHECKS[pid]
        checks.append({
            "property_id": pid,
            "quick_cmd": "./check %s --tier quick" % pid,
            "thorough_cmd": "./check %s --tier thorough" % pid,
            "evidence_file": "/verif/evidence/%s.json" % pid,
            "replay_cmd_template": "./check --replay {path}",
            "engine": "opaque-sim",
            "level_claimed": {"category": c["cat"], "text": c["text"], "design_ref": c["ref"]},
            "level_note": c["note"],
            "technique": c["technique"],
        })
    na = [{"property_id": k, "reason": v} for k, v in NOT_APPLICABLE.items()]
    for pid in ALL:
        if pid not in CHECKS and pid not in NOT_APPLICABLE:
            na.append({"property_id": pid, "reason": "not claimed yet: the check for this property is still being built (see DESIGN.md section 3 for the design)"})
    m = {
        "version": 1,
        "setup_cmd": "cd /verif/sim && CARGO_NET_OFFLINE=true cargo build --release --offline",
        "hooks": {
            "guard": "opaque_ke_verif",
            "enable": "none needed: every seam (RNG parameter, Ksf trait, SecretKey trait, byte encodings) is public API; the guard name is reserved only and no hook commit exists",
            "baseline_off_cmd": "cd /repo && cargo test --workspace --no-fail-fast --offline",
            "source_commits": [],
            "add_only": True,
        },
        "engines": [{
            "name": "opaque-sim",
            "path": "/verif/sim",
            "serves_properties": [c["property_id"] for c in checks],
            "kind_free_text": "deterministic protocol simulator with fault injection: seeded worlds (explicit op lists) over the real library linked in production cfg; seams = RNG parameter (SimRng tapes), Ksf trait (SimKsf), SecretKey trait (SimHsm), byte encodings as network/disk; oracles = Model A (symbolic matched conversation) and Model B (RFC transcription)",
        }],
        "checks": checks,
        "notes": "exit 0 held / 1 violation (VIOLATION line + replay file) / 2 harness error; VERIF_SEED (default 1) decides every choice; known findings in /verif/known_findings.json",
        "not_applicable": na,
    }
    json.dump(m, open("/verif/MANIFEST.json", "w"), indent=1)
    print("wrote MANIFEST.json with", len(checks), "checks,", len(na), "not claimed")

main()

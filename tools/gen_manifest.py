#!/usr/bin/env python3
"""Regenerates /verif/MANIFEST.json from the table below (run after adding a check)."""
import json, sys

CHECKS = {
 "C01": dict(cat="exploration", ref="DESIGN.md section 3 C01",
   technique="deterministic simulation (fault-free configuration): seeded multi-user worlds, honest routing, seeded interleavings, in-memory vs codec delivery; Model A + postconditions as oracle",
   text="Seeded simulation of honest registration+login worlds over all 44 suite instantiations (20 OPRF x KE combinations with SimKsf and with the shipped Identity KSF, 4 with Argon2), production build (cfg(test) off): every step must succeed, keys agree, export key and server public key equal registration's. Sampling over parameter classes with a covering schedule; not exhaustive.",
   note="trusted: curve crates, sha2, serde codecs; the harness' adapter and Model A; inputs stay within the 65535-byte limit (oversize is C12)"),
}

NOT_APPLICABLE = {
 "C19": "pure function of its arguments on the KeGroup API: no party, message, schedule, stored state, seam or fault in the statement; see DESIGN.md section 3 (C19)",
}

ALL = ["C%02d" % i for i in range(1, 20)]

def main():
    checks = []
    for pid in ALL:
        if pid not in CHECKS:
            continue
        c = CHECKS[pid]
        checks.append({
            "property_id": pid,
            "quick_cmd": "./check %s --tier quick" % pid,
            "thorough_cmd": "./check %s --tier thorough" % pid,
            "evidence_file": "/verif/evidence/%s.json" % pid,
            "replay_cmd_template": "./check --replay {path}",
            "engine": "opaque-sim",
            "level_claimed": {"category": c["cat"], "text": c["text"], "design_ref": c["ref"]},
            "level_note": c["note"],
            "technique": c["technique"],
        })
    na = [{"property_id": k, "reason": v} for k, v in NOT_APPLICABLE.items()]
    for pid in ALL:
        if pid not in CHECKS and pid not in NOT_APPLICABLE:
            na.append({"property_id": pid, "reason": "not claimed yet: the check for this property is still being built (see DESIGN.md section 3 for the design)"})
    m = {
        "version": 1,
        "setup_cmd": "cd /verif/sim && CARGO_NET_OFFLINE=true cargo build --release --offline",
        "hooks": {
            "guard": "opaque_ke_verif",
            "enable": "none needed: every seam (RNG parameter, Ksf trait, SecretKey trait, byte encodings) is public API; the guard name is reserved only and no hook commit exists",
            "baseline_off_cmd": "cd /repo && cargo test --workspace --no-fail-fast --offline",
            "source_commits": [],
            "add_only": True,
        },
        "engines": [{
            "name": "opaque-sim",
            "path": "/verif/sim",
            "serves_properties": [c["property_id"] for c in checks],
            "kind_free_text": "deterministic protocol simulator with fault injection: seeded worlds (explicit op lists) over the real library linked in production cfg; seams = RNG parameter (SimRng tapes), Ksf trait (SimKsf), SecretKey trait (SimHsm), byte encodings as network/disk; oracles = Model A (symbolic matched conversation) and Model B (RFC transcription)",
        }],
        "checks": checks,
        "notes": "exit 0 held / 1 violation (VIOLATION line + replay file) / 2 harness error; VERIF_SEED (default 1) decides every choice; known findings in /verif/known_findings.json",
        "not_applicable": na,
    }
    json.dump(m, open("/verif/MANIFEST.json", "w"), indent=1)
    print("wrote MANIFEST.json with", len(checks), "checks,", len(na), "not claimed")

main()

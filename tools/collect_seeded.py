#!/usr/bin/env python3
"""Assembles /verif/seeded/<name>/ from the sub-agents' deliveries (/tmp/seeded-in),
the independent confirmation run (tools/confirm_mutants.sh) and the sensitivity matrices
(tools/mutant_matrix.sh). Usage: collect_seeded.py <confirm.tsv> <matrix.tsv> [<matrix2.tsv> ...]"""
import json, os, re, shutil, sys, glob

confirm = {}
for l in open(sys.argv[1]):
    p = l.rstrip('\n').split('\t')
    if len(p) >= 5:
        confirm[p[0]] = dict(x.split('=', 1) for x in p[1:])

detect = {}
for f in sys.argv[2:]:
    for l in open(f):
        p = l.rstrip('\n').split('\t')
        if len(p) < 2:
            continue
        import re as _re
        parts = [x for x in _re.split(r'[-/]', p[0].replace('.patch.diff','')) if x]
        nm = (parts[-2] + '-' + parts[-1]) if parts[-1] in ('A','B') else parts[-1] + '-A'
        d = detect.setdefault(nm, {})
        for c in p[1:]:
            q = c.split(':')
            if len(q) >= 2 and q[1] not in ('2',):      # exit 2 = check did not exist in that snapshot
                d[q[0]] = dict(exit=int(q[1]), clause=q[2] if len(q) > 2 else '', replay=q[3] if len(q) > 3 else '')

def first_para(notes, tag):
    # best effort: the part of notes.md about change A / B
    m = re.split(r'\n(?=#+ .*\b[AB]\b)', notes)
    for part in m:
        if re.match(r'#+ .*\b%s\b' % tag, part):
            return part.strip()[:1500]
    return notes[:1500]

for d in sorted(glob.glob('/tmp/seeded-in/*') + glob.glob('/tmp/seeded-in-r2/*') + glob.glob('/tmp/seeded-in-r3/*') + glob.glob('/tmp/seeded-in-r4*/*') + glob.glob('/tmp/seeded-in-r5/*') + glob.glob('/tmp/seeded-in-r6/*') + glob.glob('/tmp/seeded-in-r7/*') + glob.glob('/tmp/seeded-in-r8/*')):
    pid = os.path.basename(d)
    notes = open(os.path.join(d, 'notes.md')).read() if os.path.exists(os.path.join(d, 'notes.md')) else ''
    for v in ('A', 'B'):
        patch = os.path.join(d, f'{v}.patch.diff')
        if not os.path.exists(patch):
            continue
        name = f'{pid}-{v}'
        out = f'/verif/seeded/{name}'
        os.makedirs(out, exist_ok=True)
        shutil.copy(patch, os.path.join(out, 'patch.diff'))
        demos = glob.glob(os.path.join(d, f'demo_*_{v}.rs'))
        if demos:
            shutil.copy(demos[0], os.path.join(out, os.path.basename(demos[0])))
        if notes:
            open(os.path.join(out, 'notes.md'), 'w').write(notes)
        det = detect.get(name, {})
        caught = sorted(k for k, x in det.items() if x['exit'] == 1)
        meta = {
            'name': name,
            'breaks_property': (pid[2:] if pid[0] == 'R' else pid) if not pid.startswith('F') else {'F1': 'C10', 'F2': 'C10', 'F3': 'C11', 'F4': 'C04'}[pid],
            'origin': ('independent sub-agent given only the property text and a scratch worktree' + (' (round %s)' % pid[1] if pid[0] == 'R' else '')) if not pid.startswith('F') else 'reverse of the fix: commit in /repo (re-introduces the genuine defect)',
            'what_and_what_it_needs': first_para(notes, v) if notes else 'see DESIGN.md section 4',
            'confirmed_independently': confirm.get(name, {}),
            'checks_run': 'tools/mutant_matrix.sh: patch applied to a private copy of /repo, every check at quick tier, default seed; replay of the first violation re-run in a fresh process',
            'detected_by': {k: det[k] for k in caught},
            'not_detected_by_own_property_check': ((pid[2:] if pid[0] == 'R' else pid) not in caught) if not pid.startswith('F') else None,
        }
        json.dump(meta, open(os.path.join(out, 'meta.json'), 'w'), indent=1)
        print(name, 'caught by', ','.join(caught) or '-')

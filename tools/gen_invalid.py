#!/usr/bin/env python3
"""Generates the invalid-encoding catalogue for C11 with plain big-integer
arithmetic (independent of every Rust crate). Output: /verif/spec/invalid/<group>.json
Each entry: {"name", "hex", "class"}; classes: identity, off_curve, out_of_range,
bad_tag, noncanonical, negative, nonsquare, small_order, zero_scalar, scalar_out_of_range, unclamped."""
import json, random, hashlib
random.seed(20261001)

def be(x, n): return x.to_bytes(n, 'big').hex()
def le(x, n): return x.to_bytes(n, 'little').hex()

NIST = {
 "p256": dict(n=32,
   p=0xffffffff00000001000000000000000000000000ffffffffffffffffffffffff,
   b=0x5ac635d8aa3a93e7b3ebbd55769886bc651d06b0cc53b0f63bce3c3e27d2604b,
   order=0xffffffff00000000ffffffffffffffffbce6faada7179e84f3b9cac2fc632551),
 "p384": dict(n=48,
   p=0xfffffffffffffffffffffffffffffffffffffffffffffffffffffffffffffffeffffffff0000000000000000ffffffff,
   b=0xb3312fa7e23ee7e4988e056be3f82d19181d9c6efe8141120314088f5013875ac656398d8a2ed19d2a85c8edd3ec2aef,
   order=0xffffffffffffffffffffffffffffffffffffffffffffffffc7634d81f4372ddf581a0db248b0a77aecec196accc52973),
 "p521": dict(n=66,
   p=(1<<521)-1,
   b=0x0051953eb9618e1c9a1f929a21a0b68540eea2da725b99b315f3b8b489918ef109e156193951ec7e937b1652c0bd3bb1bf073573df883d2c34f1ef451fd46b503f00,
   order=0x01fffffffffffffffffffffffffffffffffffffffffffffffffffffffffffffffffa51868783bf2f966b7fcc0148f709a5d03bb5c9b8899c47aebb6fb71e91386409),
}

def on_curve_x(c, x):
    p = c['p']; rhs = (pow(x,3,p) - 3*x + c['b']) % p
    return rhs == 0 or pow(rhs, (p-1)//2, p) == 1

def nist(name, c):
    n, p, order = c['n'], c['p'], c['order']
    elems, scalars = [], []
    def E(nm, hx, cl): elems.append(dict(name=nm, hex=hx, cl=cl))
    def S(nm, hx, cl): scalars.append(dict(name=nm, hex=hx, cl=cl))
    E("sec1_identity_padded", "00"*(n+1), "identity")
    # a valid x and an off-curve x
    r = random.Random(name)
    while True:
        xv = r.randrange(1, p)
        if on_curve_x(c, xv): break
    offs = []
    while len(offs) < 4:
        xo = r.randrange(1, p)
        if not on_curve_x(c, xo): offs.append(xo)
    for i, xo in enumerate(offs):
        for tag in ("02", "03"):
            E(f"off_curve_x{i}_tag{tag}", tag + be(xo, n), "off_curve")
    for tag in ("02", "03"):
        E(f"x_eq_p_tag{tag}", tag + be(p, n), "out_of_range") if p < (1 << (8*n)) else None
        if p + 1 < (1 << (8*n)): E(f"x_eq_p_plus_1_tag{tag}", tag + be(p+1, n), "out_of_range")
        E(f"x_all_ff_tag{tag}", tag + "ff"*n, "out_of_range")
        # valid x shifted by p where it fits
        for k in range(0, 40):
            xs = r.randrange(0, (1 << (8*n)) - p) if (1 << (8*n)) - p > 0 else None
            if xs is not None and on_curve_x(c, xs) and xs + p < (1 << (8*n)):
                E(f"valid_x_plus_p_tag{tag}", tag + be(xs + p, n), "out_of_range"); break
    if not on_curve_x(c, 0):
        E("x_zero_tag02", "02" + be(0, n), "off_curve"); E("x_zero_tag03", "03" + be(0, n), "off_curve")
    for tag in ("00", "01", "04", "06", "07", "08", "ff"):
        E(f"valid_x_bad_tag_{tag}", tag + be(xv, n), "bad_tag")
    S("zero", be(0, n), "zero_scalar")
    S("order", be(order, n), "scalar_out_of_range")
    S("order_plus_1", be(order+1, n), "scalar_out_of_range")
    S("all_ff", "ff"*n, "scalar_out_of_range") if name != "p521" else S("all_ff", "ff"*n, "scalar_out_of_range")
    S("two_pow_top", be((1 << (8*n)) - 2, n), "scalar_out_of_range")
    S("order_times_2_minus_1" if 2*order-1 < (1<<(8*n)) else "order_plus_2", be(min(2*order-1, (1<<(8*n))-1) if 2*order-1 < (1<<(8*n)) else order+2, n), "scalar_out_of_range")
    S("valid_one", be(1, n), "valid_extreme"); S("valid_two", be(2, n), "valid_extreme"); S("valid_order_minus_1", be(order-1, n), "valid_extreme")
    return dict(group=name, elem_len=n+1, scalar_len=n, endian='big', order_hex='%x' % order, p_hex='%x' % p, elems=[e for e in elems if e], scalars=scalars)

# ---- ristretto255 (RFC 9496) and curve25519
P = 2**255 - 19
D = (-121665 * pow(121666, -1, P)) % P
SQRT_M1 = pow(2, (P-1)//4, P)
L = 2**252 + 27742317777372353535851937790883648493

def is_neg(x): return (x % P) & 1
def sqrt_ratio_m1(u, v):
    v3 = v*v*v % P; v7 = v3*v3*v % P
    r = (u*v3) * pow(u*v7 % P, (P-5)//8, P) % P
    check = v * r * r % P
    correct = check == u % P
    flipped = check == (-u) % P
    flipped_i = check == (-u*SQRT_M1) % P
    if flipped or flipped_i: r = r*SQRT_M1 % P
    if is_neg(r): r = (-r) % P
    return (correct or flipped), r

def ristretto_decode_ok(sb):
    s = int.from_bytes(sb, 'little')
    if s >= P: return False, "noncanonical"
    if s & 1: return False, "negative"
    ss = s*s % P; u1 = (1-ss) % P; u2 = (1+ss) % P; u2s = u2*u2 % P
    v = (-(D*u1*u1) - u2s) % P
    ok, inv = sqrt_ratio_m1(1, v*u2s % P)
    den_x = inv*u2 % P; den_y = inv*den_x*v % P
    x = 2*s*den_x % P
    if is_neg(x): x = (-x) % P
    y = u1*den_y % P; t = x*y % P
    if not ok: return False, "nonsquare"
    if is_neg(t): return False, "negative_t"
    if y == 0: return False, "y_zero"
    return True, "ok"

def ristretto():
    elems, scalars = [], []
    def E(nm, x, cl): elems.append(dict(name=nm, hex=le(x, 32), cl=cl))
    E("identity", 0, "identity")
    for k, x in enumerate([P, P+1, P+2, P+18, 2**255-1, 2**255-2]): E(f"s_ge_p_{k}", x, "noncanonical")
    E("s_top_bit_set", 2**255 + 2, "noncanonical"); E("all_ff", 2**256-1, "noncanonical")
    E("s_eq_1", 1, "negative"); E("s_eq_p_minus_1", P-1, "y_zero")
    r = random.Random("ristretto")
    want = {"negative": 4, "nonsquare": 6, "negative_t": 6}
    got = {k: 0 for k in want}
    while any(got[k] < want[k] for k in want):
        s = r.randrange(2, P)
        ok, why = ristretto_decode_ok(s.to_bytes(32, 'little'))
        if not ok and why in want and got[why] < want[why]:
            got[why] += 1; E(f"{why}_{got[why]}", s, why if why != "negative_t" else "nonsquare")
    # sanity: a few known-good encodings must pass our decoder (basepoint multiples from RFC 9496 A.1)
    good = ["e2f2ae0a6abc4e71a884a961c500515f58e30b6aa582dd8db6a65945e08d2d76", "6a493210f7499cd17fecb510ae0cea23a110e8d5b901f8acadd3095c73a3b919"]
    for gh in good:
        assert ristretto_decode_ok(bytes.fromhex(gh))[0], gh
    def S(nm, x, cl): scalars.append(dict(name=nm, hex=le(x, 32), cl=cl))
    S("zero", 0, "zero_scalar"); S("order", L, "scalar_out_of_range"); S("order_plus_1", L+1, "scalar_out_of_range")
    S("two_order", 2*L, "scalar_out_of_range"); S("order_times_8_minus_1", 8*L-1, "scalar_out_of_range")
    S("two_255_minus_1", 2**255-1, "scalar_out_of_range"); S("all_ff", 2**256-1, "scalar_out_of_range")
    S("one_plus_order", 1+L, "scalar_out_of_range")
    S("valid_one", 1, "valid_extreme"); S("valid_two", 2, "valid_extreme"); S("valid_order_minus_1", L-1, "valid_extreme")
    return dict(group="ristretto255", elem_len=32, scalar_len=32, endian='little', order_hex='%x' % L, p_hex='%x' % P, elems=elems, scalars=scalars)

def curve25519():
    elems, scalars = [], []
    def E(nm, x, cl): elems.append(dict(name=nm, hex=le(x, 32), cl=cl))
    o8a = 325606250916557431795983626356110631294008115727848805560023387167927233504
    o8b = 39382357235489614581723060781553021112529911719440698176882885853963445705823
    small = {"u0": 0, "u1": 1, "order8_a": o8a, "order8_b": o8b, "p_minus_1": P-1}
    for nm, u in small.items():
        E(f"small_order_{nm}", u, "small_order")
        if u + P < 2**255: E(f"small_order_{nm}_plus_p", u + P, "small_order")
        E(f"small_order_{nm}_topbit", u | (1 << 255), "small_order")
        if u + P < 2**255: E(f"small_order_{nm}_plus_p_topbit", (u + P) | (1 << 255), "small_order")
    def S(nm, b, cl): scalars.append(dict(name=nm, hex=bytes(b).hex(), cl=cl))
    r = random.Random("x25519")
    S("zero", [0]*32, "zero_scalar")
    base = [r.randrange(256) for _ in range(32)]
    clamped = list(base); clamped[0] &= 248; clamped[31] &= 127; clamped[31] |= 64
    for bit, nm in [(0, "bit0_set"), (1, "bit1_set"), (2, "bit2_set")]:
        k = list(clamped); k[0] |= (1 << bit); S(f"unclamped_{nm}", k, "unclamped")
    k = list(clamped); k[31] |= 128; S("unclamped_bit255_set", k, "unclamped")
    k = list(clamped); k[31] &= ~64 & 0xff; S("unclamped_bit254_clear", k, "unclamped")
    S("all_ff", [255]*32, "unclamped")
    return dict(group="curve25519", elem_len=32, scalar_len=32, endian='little', order_hex='', p_hex='%x' % P, elems=elems, scalars=scalars)

out = {name: nist(name, c) for name, c in NIST.items()}
out["ristretto255"] = ristretto()
out["curve25519"] = curve25519()
for g, v in out.items():
    json.dump(v, open(f"/verif/spec/invalid/{g}.json", "w"), indent=1)
    print(g, len(v["elems"]), "elems", len(v["scalars"]), "scalars")

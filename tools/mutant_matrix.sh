#!/bin/bash
# Sensitivity matrix: every seeded patch x every check, on PRIVATE copies of
# /repo and /verif under /tmp/mm (so that work in /repo and /verif is not disturbed).
# usage: mutant_matrix.sh <outfile.tsv> <patchdir-or-list...>   env CHECKS="C01 C02 ..."
set -u
OUT="$1"; shift
MM=${MM:-/tmp/mm}
CHECKS=${CHECKS:-"C01 C02 C03 C04 C05 C06 C07 C08 C09 C10 C11 C12 C13 C14 C15 C16 C17 C18"}
export CARGO_NET_OFFLINE=true
rm -rf $MM/verif; mkdir -p $MM/verif
if [ ! -d $MM/repo ]; then git -C /repo worktree add --detach $MM/repo HEAD >/dev/null 2>&1 || exit 2; fi
git -C $MM/repo checkout -q --detach "$(git -C /repo rev-parse HEAD)" ; git -C $MM/repo checkout -q -- .
rsync -a --exclude target --exclude .git /verif/sim $MM/verif/ ; cp -r /verif/spec /verif/known_findings.json $MM/verif/
find $MM/verif/sim -name Cargo.toml -not -path "*/target/*" -exec sed -i "s#path = \"/repo\"#path = \"$MM/repo\"#" {} +
mkdir -p $MM/target
export CARGO_TARGET_DIR=$MM/target
BIN=$MM/target/release/opaque-sim
: > "$OUT"
for P in "$@"; do
  name=$(echo "$P" | sed 's#.*/seeded-in/##; s#.*/seeded/##; s#/#-#g; s#.patch.diff##; s#-patch.diff##')
  ( cd $MM/repo && git checkout -q -- . && git apply "$P" ) || { echo -e "$name\tAPPLY-FAIL" >> "$OUT"; continue; }
  if ! ( cd $MM/verif/sim && cargo build --release --offline >$MM/build.log 2>&1 ); then echo -e "$name\tBUILD-FAIL" >> "$OUT"; continue; fi
  line="$name"
  for id in $CHECKS; do
    rm -rf $MM/verif/replays
    o=$(cd $MM/verif && VERIF_DIR=$MM/verif timeout 1200 $BIN check $id --tier ${TIER:-quick} 2>&1); code=$?
    cl=$(echo "$o" | grep -m1 '^VIOLATION' | sed 's/.*clause=\([^ ]*\).*/\1/')
    rp=""
    if [ $code -eq 1 ]; then
      f=$(ls $MM/verif/replays/*.json 2>/dev/null | head -1)
      if [ -n "$f" ]; then VERIF_DIR=$MM/verif $BIN replay "$f" >/dev/null 2>&1; rp="r$?"; fi
    fi
    line="$line\t$id:$code:${cl:-}:$rp"
  done
  echo -e "$line" >> "$OUT"
done
( cd $MM/repo && git checkout -q -- . )
echo DONE >> "$OUT"

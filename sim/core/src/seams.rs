//! Seams the library already exposes, filled with simulator stand-ins:
//! `SimKsf` (the `Ksf` trait) and `SimHsm` (the `SecretKey` trait).
//! Both log every call into thread-local logs and can fail at the n-th call.

use std::cell::{Cell, RefCell};

use generic_array::{ArrayLength, GenericArray};
use opaque_ke::errors::InternalError;
use opaque_ke::key_exchange::group::KeGroup;
use opaque_ke::keypair::{PrivateKey, PublicKey, SecretKey};
use opaque_ke::ksf::Ksf;
use sha2::{Digest, Sha512};

// ---------------------------------------------------------------- SimKsf

#[derive(Clone, Debug)]
pub struct KsfCall {
    pub tag: u32,
    pub input: Vec<u8>,
    pub failed: bool,
}

thread_local! {
    static KSF_LOG: RefCell<Vec<KsfCall>> = const { RefCell::new(Vec::new()) };
    static KSF_FAIL_AT: Cell<Option<usize>> = const { Cell::new(None) };
    static KSF_FIRED: Cell<usize> = const { Cell::new(0) };
}

/// Start a fresh observation window: clear the log, set the failure plan
/// (`Some(n)` = the n-th call from now, 1-based, returns `KsfError`).
pub fn ksf_reset(fail_at: Option<usize>) {
    KSF_LOG.with(|l| l.borrow_mut().clear());
    KSF_FAIL_AT.with(|f| f.set(fail_at));
}
pub fn ksf_take_log() -> Vec<KsfCall> {
    KSF_LOG.with(|l| std::mem::take(&mut *l.borrow_mut()))
}
pub fn ksf_faults_fired() -> usize {
    KSF_FIRED.with(|f| f.get())
}

/// Tagged, non-identity key-stretching stand-in: output = SHA-512-based
/// expansion of (tag, input). `Default` is tag 0. Tags with the top bit set
/// (`SIMKSF_CONSTANT`) are legal but degenerate instances whose output
/// ignores the input: every separation the protocol promises must then come
/// from the protocol itself (the OPRF output also enters the HKDF directly).
#[derive(Clone, Debug, Default, PartialEq, Eq)]
pub struct SimKsf {
    pub tag: u32,
}

pub const SIMKSF_CONSTANT: u32 = 0x8000_0000;

pub fn simksf_eval(tag: u32, input: &[u8], out_len: usize) -> Vec<u8> {
    let input: &[u8] = if tag & SIMKSF_CONSTANT != 0 { &[] } else { input };
    let mut out = Vec::with_capacity(out_len + 64);
    let mut ctr = 0u32;
    while out.len() < out_len {
        let mut h = Sha512::new();
        h.update(b"opaque-sim/SimKsf");
        h.update(tag.to_be_bytes());
        h.update(ctr.to_be_bytes());
        h.update((input.len() as u32).to_be_bytes());
        h.update(input);
        out.extend_from_slice(&h.finalize());
        ctr += 1;
    }
    out.truncate(out_len);
    out
}

impl Ksf for SimKsf {
    fn hash<L: ArrayLength<u8>>(
        &self,
        input: GenericArray<u8, L>,
    ) -> Result<GenericArray<u8, L>, InternalError> {
        simksf_hash(self.tag, input)
    }
}

/// A key-stretching function *without fields* (a unit struct with hard-wired
/// parameters, as an application would write it): the same function as
/// `SimKsf { tag: SIMKSF_UNIT_TAG }`, logged and failable the same way.
#[derive(Clone, Copy, Debug, Default, PartialEq, Eq)]
pub struct SimKsfUnit;

pub const SIMKSF_UNIT_TAG: u32 = 0x554e_4954;

impl Ksf for SimKsfUnit {
    fn hash<L: ArrayLength<u8>>(
        &self,
        input: GenericArray<u8, L>,
    ) -> Result<GenericArray<u8, L>, InternalError> {
        simksf_hash(SIMKSF_UNIT_TAG, input)
    }
}

fn simksf_hash<L: ArrayLength<u8>>(
    tag: u32,
    input: GenericArray<u8, L>,
) -> Result<GenericArray<u8, L>, InternalError> {
    {
        let n = KSF_LOG.with(|l| l.borrow().len()) + 1;
        let fail = KSF_FAIL_AT.with(|f| f.get()) == Some(n);
        KSF_LOG.with(|l| {
            l.borrow_mut().push(KsfCall {
                tag,
                input: input.to_vec(),
                failed: fail,
            })
        });
        if fail {
            KSF_FIRED.with(|f| f.set(f.get() + 1));
            return Err(InternalError::KsfError);
        }
        Ok(GenericArray::clone_from_slice(&simksf_eval(
            tag,
            &input,
            L::USIZE,
        )))
    }
}

// ---------------------------------------------------------------- SimHsm

#[derive(Clone, Copy, Debug, PartialEq, Eq)]
pub enum HsmCall {
    PublicKey,
    DiffieHellman,
    Deserialize,
    Serialize,
    Clone,
}

/// The tagged error an injected HSM failure carries; the number is the index
/// (1-based) of the fallible call that failed.
#[derive(Clone, Copy, Debug, PartialEq, Eq)]
pub struct HsmErr(pub u32);

impl std::fmt::Display for HsmErr {
    fn fmt(&self, f: &mut std::fmt::Formatter<'_>) -> std::fmt::Result {
        write!(f, "HsmErr({})", self.0)
    }
}

thread_local! {
    static HSM_LOG: RefCell<Vec<HsmCall>> = const { RefCell::new(Vec::new()) };
    static HSM_FALLIBLE: Cell<usize> = const { Cell::new(0) };
    static HSM_FAIL_AT: Cell<Option<usize>> = const { Cell::new(None) };
    static HSM_FIRED: Cell<usize> = const { Cell::new(0) };
    static HSM_HANDLE: Cell<bool> = const { Cell::new(false) };
    static HSM_ROTATED: RefCell<Option<Vec<u8>>> = const { RefCell::new(None) };
    static HSM_ERR_FLAVOUR: Cell<u8> = const { Cell::new(0) };
    static HSM_PAUSED: Cell<bool> = const { Cell::new(false) };
}

/// While paused, calls on the external key are neither logged, counted nor failed: used around
/// decodes the *harness* makes for its own bookkeeping (identifying a literal message), which
/// are not part of the simulated execution.
pub fn hsm_pause(on: bool) {
    HSM_PAUSED.with(|p| p.set(on));
}

/// Which error an injected failure carries: 0 = the key's own error type
/// (`Custom(HsmErr(n))`), 1.. = one of the library's own `InternalError`
/// variants, which the interface also allows a key to return.
pub fn hsm_set_err_flavour(f: u8) {
    HSM_ERR_FLAVOUR.with(|x| x.set(f));
}
pub fn hsm_err_name(flavour: u8, n: usize) -> String {
    match flavour % 5 {
        0 => format!("Custom(HsmErr({n}))"),
        1 => "InvalidByteSequence".into(),
        2 => "PointError".into(),
        3 => "SizeError".into(),
        _ => "HkdfError".into(),
    }
}

/// Fault: the key material behind the external-key interface changes (key
/// rotation inside the key service): from now on every key operation of every
/// `SimHsm` uses the private key whose raw scalar bytes are given.
pub fn hsm_rotate_to(raw_sk: Option<Vec<u8>>) {
    HSM_ROTATED.with(|r| *r.borrow_mut() = raw_sk);
}
fn live_key<KG: KeGroup>(own: &PrivateKey<KG>) -> PrivateKey<KG> {
    HSM_ROTATED.with(|r| match &*r.borrow() {
        Some(b) => <PrivateKey<KG> as SecretKey<KG>>::deserialize(b).unwrap_or_else(|_| own.clone()),
        None => own.clone(),
    })
}

/// Handle mode: the serialized form of the external key is an opaque handle
/// (not the raw scalar), as with a real key service.
pub fn hsm_set_handle_mode(on: bool) {
    HSM_HANDLE.with(|h| h.set(on));
}
fn handle_xform(b: &mut [u8]) {
    if HSM_HANDLE.with(|h| h.get()) {
        for (i, x) in b.iter_mut().enumerate() {
            *x ^= 0x5a ^ (i as u8).wrapping_mul(29);
        }
    }
}

pub fn hsm_reset(fail_at: Option<usize>) {
    HSM_LOG.with(|l| l.borrow_mut().clear());
    HSM_FALLIBLE.with(|c| c.set(0));
    HSM_FAIL_AT.with(|f| f.set(fail_at));
}
pub fn hsm_take_log() -> Vec<HsmCall> {
    HSM_LOG.with(|l| std::mem::take(&mut *l.borrow_mut()))
}
pub fn hsm_fallible_calls() -> usize {
    HSM_FALLIBLE.with(|c| c.get())
}
pub fn hsm_faults_fired() -> usize {
    HSM_FIRED.with(|f| f.get())
}

fn hsm_note(call: HsmCall) -> Result<(), InternalError<HsmErr>> {
    if HSM_PAUSED.with(|p| p.get()) {
        return Ok(());
    }
    HSM_LOG.with(|l| l.borrow_mut().push(call));
    match call {
        HsmCall::PublicKey | HsmCall::DiffieHellman | HsmCall::Deserialize => {
            let n = HSM_FALLIBLE.with(|c| {
                c.set(c.get() + 1);
                c.get()
            });
            if HSM_FAIL_AT.with(|f| f.get()) == Some(n) {
                HSM_FIRED.with(|f| f.set(f.get() + 1));
                return Err(match HSM_ERR_FLAVOUR.with(|x| x.get()) % 5 {
                    0 => InternalError::Custom(HsmErr(n as u32)),
                    1 => InternalError::InvalidByteSequence,
                    2 => InternalError::PointError,
                    3 => InternalError::SizeError { name: "external key", len: n, actual_len: 0 },
                    _ => InternalError::HkdfError,
                });
            }
            Ok(())
        }
        _ => Ok(()),
    }
}

/// External key service: holds a real `PrivateKey<KG>` and delegates the
/// arithmetic to it, but every access goes through the `SecretKey` trait.
pub struct SimHsm<KG: KeGroup>(PrivateKey<KG>);

impl<KG: KeGroup> SimHsm<KG> {
    pub fn wrap(sk: PrivateKey<KG>) -> Self {
        SimHsm(sk)
    }
}

impl<KG: KeGroup> Clone for SimHsm<KG> {
    fn clone(&self) -> Self {
        let _ = hsm_note(HsmCall::Clone);
        SimHsm(self.0.clone())
    }
}

impl<KG: KeGroup> SecretKey<KG> for SimHsm<KG> {
    type Error = HsmErr;
    type Len = KG::SkLen;

    fn diffie_hellman(
        &self,
        pk: PublicKey<KG>,
    ) -> Result<GenericArray<u8, KG::PkLen>, InternalError<Self::Error>> {
        hsm_note(HsmCall::DiffieHellman)?;
        live_key::<KG>(&self.0)
            .diffie_hellman(pk)
            .map_err(|e| InternalError::into_custom(e))
    }

    fn public_key(&self) -> Result<PublicKey<KG>, InternalError<Self::Error>> {
        hsm_note(HsmCall::PublicKey)?;
        live_key::<KG>(&self.0)
            .public_key()
            .map_err(|e| InternalError::into_custom(e))
    }

    fn serialize(&self) -> GenericArray<u8, Self::Len> {
        let _ = hsm_note(HsmCall::Serialize);
        let mut b = self.0.serialize();
        handle_xform(&mut b);
        b
    }

    fn deserialize(input: &[u8]) -> Result<Self, InternalError<Self::Error>> {
        hsm_note(HsmCall::Deserialize)?;
        let mut raw = input.to_vec();
        handle_xform(&mut raw);
        <PrivateKey<KG> as SecretKey<KG>>::deserialize(&raw)
            .map(SimHsm)
            .map_err(|e| InternalError::into_custom(e))
    }
}

impl<KG: KeGroup> serde::Serialize for SimHsm<KG> {
    fn serialize<S: serde::Serializer>(&self, s: S) -> Result<S::Ok, S::Error> {
        let _ = hsm_note(HsmCall::Serialize);
        let mut b = <PrivateKey<KG> as SecretKey<KG>>::serialize(&self.0);
        handle_xform(&mut b);
        serde::Serialize::serialize(&b, s)
    }
}

impl<'de, KG: KeGroup> serde::Deserialize<'de> for SimHsm<KG> {
    fn deserialize<D: serde::Deserializer<'de>>(d: D) -> Result<Self, D::Error> {
        use serde::de::Error;
        hsm_note(HsmCall::Deserialize).map_err(|e| D::Error::custom(crate::suite::internal_name(&e)))?;
        let mut b = <GenericArray<u8, KG::SkLen> as serde::Deserialize>::deserialize(d)?;
        handle_xform(&mut b);
        <PrivateKey<KG> as SecretKey<KG>>::deserialize(&b)
            .map(SimHsm)
            .map_err(|e| D::Error::custom(format!("{e:?}")))
    }
}


// ---------------------------------------------------------------- SimHsmWide

/// An external key whose serialized form is a 200-byte handle (longer than two
/// scalars of any group): the raw scalar followed by 0xA5 padding. Used only
/// by the stand-alone decoder batch of C12 (no fault plan, no call log).
pub struct SimHsmWide<KG: KeGroup>(PrivateKey<KG>);

pub type WideLen = generic_array::typenum::U200;

impl<KG: KeGroup> SimHsmWide<KG> {
    pub fn wrap(sk: PrivateKey<KG>) -> Self {
        SimHsmWide(sk)
    }
}

impl<KG: KeGroup> Clone for SimHsmWide<KG> {
    fn clone(&self) -> Self {
        SimHsmWide(self.0.clone())
    }
}

impl<KG: KeGroup> SecretKey<KG> for SimHsmWide<KG> {
    type Error = HsmErr;
    type Len = WideLen;

    fn diffie_hellman(&self, pk: PublicKey<KG>) -> Result<GenericArray<u8, KG::PkLen>, InternalError<Self::Error>> {
        self.0.diffie_hellman(pk).map_err(|e| InternalError::into_custom(e))
    }

    fn public_key(&self) -> Result<PublicKey<KG>, InternalError<Self::Error>> {
        self.0.public_key().map_err(|e| InternalError::into_custom(e))
    }

    fn serialize(&self) -> GenericArray<u8, Self::Len> {
        let raw = self.0.serialize();
        let mut out = GenericArray::<u8, WideLen>::default();
        for (i, b) in out.iter_mut().enumerate() {
            *b = if i < raw.len() { raw[i] } else { 0xA5 };
        }
        out
    }

    fn deserialize(input: &[u8]) -> Result<Self, InternalError<Self::Error>> {
        use generic_array::typenum::Unsigned;
        let n = <KG::SkLen as Unsigned>::USIZE;
        if input.len() != 200 || input[n..].iter().any(|b| *b != 0xA5) {
            return Err(InternalError::Custom(HsmErr(0)));
        }
        <PrivateKey<KG> as SecretKey<KG>>::deserialize(&input[..n])
            .map(SimHsmWide)
            .map_err(|e| InternalError::into_custom(e))
    }
}

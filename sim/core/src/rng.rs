//! `SimRng`: the only source of randomness the library ever sees.
//!
//! One integer (`VERIF_SEED`) decides everything: every stream is derived *by
//! label* (SHA-256(seed ‖ label) → ChaCha20 key), never by consumption order,
//! so a session's tape does not depend on what else ran before it.

use rand::{CryptoRng, Error, RngCore, SeedableRng};
use rand_chacha::ChaCha20Rng;
use sha2::{Digest, Sha256};

pub fn derive_key(seed: u64, label: &str) -> [u8; 32] {
    let mut h = Sha256::new();
    h.update(b"opaque-sim/v1");
    h.update(seed.to_be_bytes());
    h.update((label.len() as u64).to_be_bytes());
    h.update(label.as_bytes());
    h.finalize().into()
}

/// Deterministic generator for the *harness'* own choices (workload, schedule).
pub struct Gen(ChaCha20Rng);

impl Gen {
    pub fn new(seed: u64, label: &str) -> Self {
        Gen(ChaCha20Rng::from_seed(derive_key(seed, label)))
    }
    pub fn u64(&mut self) -> u64 {
        self.0.next_u64()
    }
    /// uniform in 0..n (n>0)
    pub fn below(&mut self, n: usize) -> usize {
        if n == 0 {
            // an empty range (e.g. an item the library failed to produce): nothing to choose
            let _ = self.0.next_u64();
            return 0;
        }
        (self.0.next_u64() % (n as u64)) as usize
    }
    pub fn chance(&mut self, num: u32, den: u32) -> bool {
        (self.0.next_u32() % den) < num
    }
    pub fn bytes(&mut self, n: usize) -> Vec<u8> {
        let mut v = vec![0u8; n];
        self.0.fill_bytes(&mut v);
        v
    }
    pub fn pick<'a, T>(&mut self, xs: &'a [T]) -> &'a T {
        &xs[self.below(xs.len())]
    }
    pub fn shuffle<T>(&mut self, xs: &mut [T]) {
        for i in (1..xs.len()).rev() {
            let j = self.below(i + 1);
            xs.swap(i, j);
        }
    }
}

/// The tape handed to the library. Records every draw; can be scripted with a
/// prefix (bytes replayed verbatim) after which it continues from its own
/// label-derived stream.
pub struct SimRng {
    pub label: String,
    stream: ChaCha20Rng,
    script: Vec<u8>,
    script_pos: usize,
    /// every draw, in order: the bytes handed out by one fill_bytes/next_* call
    pub draws: Vec<Vec<u8>>,
    pub total: usize,
    /// fault mode: `try_fill_bytes` reports an error and fills nothing, while
    /// `fill_bytes` keeps working (a generator that retries internally)
    pub try_fill_fails: bool,
    pub try_fill_errors: usize,
}

impl SimRng {
    pub fn new(seed: u64, label: &str) -> Self {
        SimRng {
            label: label.to_string(),
            stream: ChaCha20Rng::from_seed(derive_key(seed, label)),
            script: Vec::new(),
            script_pos: 0,
            draws: Vec::new(),
            total: 0,
            try_fill_fails: false,
            try_fill_errors: 0,
        }
    }
    /// Tape = `prefix` followed by the stream of (`seed`,`label`).
    pub fn scripted(seed: u64, label: &str, prefix: Vec<u8>) -> Self {
        let mut r = Self::new(seed, label);
        r.script = prefix;
        r
    }
    pub fn flat(&self) -> Vec<u8> {
        self.draws.iter().flatten().copied().collect()
    }
    fn fill(&mut self, dest: &mut [u8]) {
        let mut i = 0;
        while i < dest.len() && self.script_pos < self.script.len() {
            dest[i] = self.script[self.script_pos];
            i += 1;
            self.script_pos += 1;
        }
        if i < dest.len() {
            self.stream.fill_bytes(&mut dest[i..]);
        }
        self.total += dest.len();
        self.draws.push(dest.to_vec());
    }
}

impl RngCore for SimRng {
    fn next_u32(&mut self) -> u32 {
        let mut b = [0u8; 4];
        self.fill(&mut b);
        u32::from_le_bytes(b)
    }
    fn next_u64(&mut self) -> u64 {
        let mut b = [0u8; 8];
        self.fill(&mut b);
        u64::from_le_bytes(b)
    }
    fn fill_bytes(&mut self, dest: &mut [u8]) {
        self.fill(dest)
    }
    fn try_fill_bytes(&mut self, dest: &mut [u8]) -> Result<(), Error> {
        if self.try_fill_fails {
            self.try_fill_errors += 1;
            return Err(Error::from(core::num::NonZeroU32::new(Error::CUSTOM_START + 7).unwrap()));
        }
        self.fill(dest);
        Ok(())
    }
}

impl CryptoRng for SimRng {}

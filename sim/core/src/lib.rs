//! Simulator core: seams (RNG tapes, SimKsf, SimHsm), the byte-level
//! `SuiteOps` adapter trait and the `suite!` macro that stamps it out per
//! concrete cipher suite. The instantiations live in the `suites-*` crates so
//! that they compile in parallel and are not rebuilt when a check changes.
pub mod hexs;
pub mod rng;
pub mod seams;
pub mod suite;
pub mod unitksf;

//! Byte strings that print / parse as hex in replay files and evidence.
use serde::{Deserialize, Deserializer, Serialize, Serializer};

#[derive(Clone, PartialEq, Eq, PartialOrd, Ord, Hash, Default)]
pub struct Hex(pub Vec<u8>);

impl std::fmt::Debug for Hex {
    fn fmt(&self, f: &mut std::fmt::Formatter<'_>) -> std::fmt::Result {
        if self.0.len() > 40 {
            write!(f, "h[{}]{}…", self.0.len(), hex::encode(&self.0[..16]))
        } else {
            write!(f, "h{}", hex::encode(&self.0))
        }
    }
}
impl From<Vec<u8>> for Hex {
    fn from(v: Vec<u8>) -> Self {
        Hex(v)
    }
}
impl From<&[u8]> for Hex {
    fn from(v: &[u8]) -> Self {
        Hex(v.to_vec())
    }
}
impl std::ops::Deref for Hex {
    type Target = [u8];
    fn deref(&self) -> &[u8] {
        &self.0
    }
}
impl Serialize for Hex {
    fn serialize<S: Serializer>(&self, s: S) -> Result<S::Ok, S::Error> {
        s.serialize_str(&hex::encode(&self.0))
    }
}
impl<'de> Deserialize<'de> for Hex {
    fn deserialize<D: Deserializer<'de>>(d: D) -> Result<Self, D::Error> {
        let s = String::deserialize(d)?;
        hex::decode(&s).map(Hex).map_err(serde::de::Error::custom)
    }
}

/// Compact rendering for samples in evidence (long strings are abbreviated).
pub fn abbrev(b: &[u8]) -> String {
    if b.len() <= 24 {
        hex::encode(b)
    } else {
        format!("{}..({}B)", hex::encode(&b[..12]), b.len())
    }
}

//! Byte-level, object-safe adapter over the 20 (+KSF variants) cipher suites.
//!
//! A function generic in `CS: CipherSuite` cannot state the bounds the
//! library's `serialize()` methods need, so — like the repository's own tests —
//! the adapter is stamped out per concrete suite by a macro, behind the
//! object-safe trait [`SuiteOps`]. Every library call runs under
//! `catch_unwind`.

use std::any::Any;
use std::cell::RefCell;
use std::panic::{catch_unwind, AssertUnwindSafe};
use std::rc::Rc;

use generic_array::typenum::Unsigned;
use opaque_ke::errors::{InternalError, ProtocolError};
use opaque_ke::key_exchange::group::KeGroup;
use opaque_ke::key_exchange::tripledh::TripleDh;
use opaque_ke::keypair::{KeyPair, SecretKey};
use opaque_ke::ksf::Ksf;
use opaque_ke::{
    CipherSuite, ClientLogin, ClientLoginFinishParameters, ClientRegistration,
    ClientRegistrationFinishParameters, CredentialFinalization, CredentialRequest,
    CredentialResponse, Identifiers, RegistrationRequest, RegistrationResponse,
    RegistrationUpload, ServerLogin, ServerLoginStartParameters, ServerRegistration, ServerSetup,
};
use serde::{Deserialize, Serialize};

use crate::rng::SimRng;
use crate::seams::{SimHsm, SimKsf};

// ------------------------------------------------------------------ data types

#[derive(Clone, Copy, PartialEq, Eq, Debug, PartialOrd, Ord, Hash, Serialize, Deserialize)]
pub enum Kind {
    RegReq,
    RegResp,
    RegUpload,
    CredReq,
    CredResp,
    CredFin,
    PwFile,
    Setup,
    SetupHsm,
    ClientReg,
    ClientLogin,
    ServerLogin,
}

pub const NATIVE_DECODERS: [Kind; 11] = [
    Kind::RegReq,
    Kind::RegResp,
    Kind::RegUpload,
    Kind::CredReq,
    Kind::CredResp,
    Kind::CredFin,
    Kind::PwFile,
    Kind::Setup,
    Kind::ClientReg,
    Kind::ClientLogin,
    Kind::ServerLogin,
];

#[derive(Clone, Copy, PartialEq, Eq, Debug, PartialOrd, Ord, Hash, Serialize, Deserialize)]
pub enum Codec {
    Mem,
    Native,
    Bincode,
    Json,
}
pub const BYTE_CODECS: [Codec; 3] = [Codec::Native, Codec::Bincode, Codec::Json];
pub const ALL_CODECS: [Codec; 4] = [Codec::Mem, Codec::Native, Codec::Bincode, Codec::Json];

#[derive(Clone)]
pub enum Carrier {
    Live(Rc<dyn Any>),
    Bytes(Codec, Vec<u8>),
}

#[derive(Clone)]
pub struct Item {
    pub kind: Kind,
    pub c: Carrier,
}

impl Item {
    pub fn bytes(kind: Kind, codec: Codec, b: Vec<u8>) -> Item {
        Item {
            kind,
            c: Carrier::Bytes(codec, b),
        }
    }
    pub fn native(kind: Kind, b: &[u8]) -> Item {
        Item::bytes(kind, Codec::Native, b.to_vec())
    }
}

#[derive(Clone, Debug, PartialEq, Eq, PartialOrd, Ord, Serialize, Deserialize)]
pub enum ErrKind {
    InvalidLogin,
    Serialization,
    ReflectedValue,
    IdentityGroupElement,
    /// `ProtocolError::LibraryError(InternalError::<variant>)`
    Library(String),
    /// serde codec refused the bytes
    Serde(String),
    /// the library panicked (message @ location)
    Panic(String),
}

#[derive(Clone, Debug, PartialEq, Eq, Serialize, Deserialize)]
pub enum Stage {
    /// failure while decoding argument `.0` from bytes
    Decode(String),
    /// failure in the operation proper
    Op,
}

#[derive(Clone, Debug, PartialEq, Eq, Serialize, Deserialize)]
pub struct Fail {
    pub kind: ErrKind,
    pub stage: Stage,
}

impl Fail {
    pub fn is_panic(&self) -> bool {
        matches!(self.kind, ErrKind::Panic(_))
    }
    pub fn short(&self) -> String {
        format!("{:?}@{:?}", self.kind, self.stage)
    }
}

pub type R<T> = Result<T, Fail>;

#[derive(Clone, Debug, Default, PartialEq, Eq, PartialOrd, Ord, Serialize, Deserialize)]
pub struct Ids {
    pub client: Option<crate::hexs::Hex>,
    pub server: Option<crate::hexs::Hex>,
}

#[derive(Clone, Debug, PartialEq, Eq, PartialOrd, Ord, Serialize, Deserialize)]
pub enum KsfArg {
    Absent,
    Sim(u32),
    Identity,
    Argon2Default,
    Argon2 { m: u32, t: u32, p: u32 },
    /// alg: 0 = Argon2d, 1 = Argon2i, 2 = Argon2id; v10: version 0x10 instead of 0x13
    Argon2Alg { alg: u8, v10: bool, m: u32, t: u32, p: u32 },
    /// Argon2id m=8 t=1 p=1 whose Params carry an explicit output length
    Argon2Out { out: u32 },
}

#[derive(Clone, Copy, Debug, PartialEq, Eq, PartialOrd, Ord, Serialize, Deserialize)]
pub enum KsfFamily {
    Sim,
    Identity,
    Argon2,
}

#[derive(Clone, Copy, Debug, PartialEq, Eq, PartialOrd, Ord, Serialize, Deserialize)]
pub enum Grp {
    Ristretto255,
    P256,
    P384,
    P521,
    Curve25519,
}

#[derive(Clone, Copy, Debug)]
pub struct Lens {
    pub noe: usize,
    pub nok: usize,
    pub npk: usize,
    pub nsk: usize,
    pub nh: usize,
    pub nn: usize,
}

pub struct RegFinishOut {
    pub upload: Item,
    pub export_key: Vec<u8>,
    pub server_pk: Vec<u8>,
}

pub struct LoginFinishOut {
    pub fin: Item,
    pub session_key: Vec<u8>,
    pub export_key: Vec<u8>,
    pub server_pk: Vec<u8>,
}

// ------------------------------------------------------------------ the trait

pub trait SuiteOps: Sync {
    fn name(&self) -> &'static str;
    fn oprf(&self) -> Grp;
    fn ke(&self) -> Grp;
    fn ksf_family(&self) -> KsfFamily;
    fn lens(&self) -> Lens;

    fn decode(&self, kind: Kind, codec: Codec, bytes: &[u8]) -> R<Item>;
    fn encode(&self, item: &Item, codec: Codec) -> R<Vec<u8>>;

    fn server_setup_new(&self, rng: &mut SimRng) -> R<Item>;
    /// `ServerSetup::new_with_key(rng, KeyPair::from_private_key(SimHsm(sk)))`
    fn server_setup_new_hsm(&self, rng: &mut SimRng, sk: &[u8]) -> R<Item>;
    fn setup_public_key(&self, setup: &Item) -> R<Vec<u8>>;

    /// the stand-alone key-pair API: which = 0 PublicKey::deserialize, 1
    /// PrivateKey::deserialize (+ public_key), 2 KeyPair::from_private_key_slice,
    /// 3 the same with the external-key type, 4 ServerSetup::deserialize with a 200-byte
    /// key container, 5 build such a setup from a raw scalar, 6 KeGroup::random_sk on a given
    /// tape; returns the re-serialized bytes
    fn key_api(&self, which: u8, bytes: &[u8]) -> R<Vec<u8>>;

    fn client_reg_start(&self, rng: &mut SimRng, pw: &[u8]) -> R<(Item, Item)>;
    fn server_reg_start(&self, setup: &Item, req: &Item, cred_id: &[u8]) -> R<Item>;
    fn client_reg_finish(
        &self,
        rng: &mut SimRng,
        state: &Item,
        pw: &[u8],
        resp: &Item,
        ids: &Ids,
        ksf: &KsfArg,
    ) -> R<RegFinishOut>;
    fn server_reg_finish(&self, upload: &Item) -> R<Item>;

    fn client_login_start(&self, rng: &mut SimRng, pw: &[u8]) -> R<(Item, Item)>;
    #[allow(clippy::too_many_arguments)]
    fn server_login_start(
        &self,
        rng: &mut SimRng,
        setup: &Item,
        record: Option<&Item>,
        req: &Item,
        cred_id: &[u8],
        ctx: Option<&[u8]>,
        ids: &Ids,
    ) -> R<(Item, Item)>;
    fn client_login_finish(
        &self,
        state: &Item,
        pw: &[u8],
        resp: &Item,
        ctx: Option<&[u8]>,
        ids: &Ids,
        ksf: &KsfArg,
    ) -> R<LoginFinishOut>;
    fn server_login_finish(&self, state: &Item, fin: &Item) -> R<Vec<u8>>;
}

// ------------------------------------------------------------------ panic capture

thread_local! {
    static LAST_PANIC: RefCell<Option<String>> = const { RefCell::new(None) };
    static IN_GUARD: RefCell<u32> = const { RefCell::new(0) };
}

pub fn install_panic_hook() {
    let prev = std::panic::take_hook();
    std::panic::set_hook(Box::new(move |info| {
        let inside = IN_GUARD.with(|g| *g.borrow() > 0);
        let loc = info
            .location()
            .map(|l| format!("{}:{}", l.file(), l.line()))
            .unwrap_or_else(|| "?".into());
        let msg = if let Some(s) = info.payload().downcast_ref::<&str>() {
            s.to_string()
        } else if let Some(s) = info.payload().downcast_ref::<String>() {
            s.clone()
        } else {
            "<non-string panic>".into()
        };
        if inside {
            LAST_PANIC.with(|p| *p.borrow_mut() = Some(format!("{msg} @ {loc}")));
        } else {
            prev(info);
        }
    }));
}

/// Run a library call; a panic becomes `Fail{Panic}`.
pub fn guard<T>(f: impl FnOnce() -> R<T>) -> R<T> {
    IN_GUARD.with(|g| *g.borrow_mut() += 1);
    let r = catch_unwind(AssertUnwindSafe(f));
    IN_GUARD.with(|g| *g.borrow_mut() -= 1);
    match r {
        Ok(x) => x,
        Err(_) => {
            let m = LAST_PANIC
                .with(|p| p.borrow_mut().take())
                .unwrap_or_else(|| "<panic>".into());
            Err(Fail {
                kind: ErrKind::Panic(m),
                stage: Stage::Op,
            })
        }
    }
}

// ------------------------------------------------------------------ error mapping

pub fn internal_name<T: std::fmt::Debug>(e: &InternalError<T>) -> String {
    match e {
        InternalError::Custom(t) => format!("Custom({t:?})"),
        InternalError::InvalidByteSequence => "InvalidByteSequence".into(),
        InternalError::SizeError { .. } => "SizeError".into(),
        InternalError::PointError => "PointError".into(),
        InternalError::HashToScalar => "HashToScalar".into(),
        InternalError::HkdfError => "HkdfError".into(),
        InternalError::HmacError => "HmacError".into(),
        InternalError::KsfError => "KsfError".into(),
        InternalError::SealOpenHmacError => "SealOpenHmacError".into(),
        InternalError::IncompatibleEnvelopeModeError => "IncompatibleEnvelopeModeError".into(),
        InternalError::OprfError(e) => format!("OprfError({e:?})"),
        InternalError::OprfInternalError(e) => format!("OprfInternalError({e:?})"),
    }
}

pub fn map_err<T: std::fmt::Debug>(e: ProtocolError<T>) -> ErrKind {
    match e {
        ProtocolError::InvalidLoginError => ErrKind::InvalidLogin,
        ProtocolError::SerializationError => ErrKind::Serialization,
        ProtocolError::ReflectedValueError => ErrKind::ReflectedValue,
        ProtocolError::IdentityGroupElementError => ErrKind::IdentityGroupElement,
        ProtocolError::LibraryError(ie) => ErrKind::Library(internal_name(&ie)),
    }
}

pub fn op_err<T: std::fmt::Debug>(e: ProtocolError<T>) -> Fail {
    Fail {
        kind: map_err(e),
        stage: Stage::Op,
    }
}

pub fn dec_fail(arg: &str, kind: ErrKind) -> Fail {
    Fail {
        kind,
        stage: Stage::Decode(arg.to_string()),
    }
}

// ------------------------------------------------------------------ KSF construction

pub trait KsfMake: Ksf + Sized {
    const FAMILY: KsfFamily;
    fn make(a: &KsfArg) -> Option<Self>;
}

impl KsfMake for SimKsf {
    const FAMILY: KsfFamily = KsfFamily::Sim;
    fn make(a: &KsfArg) -> Option<Self> {
        match a {
            KsfArg::Absent => None,
            KsfArg::Sim(tag) => Some(SimKsf { tag: *tag }),
            other => panic!("harness: KsfArg {other:?} given to a SimKsf suite"),
        }
    }
}

impl KsfMake for opaque_ke::ksf::Identity {
    const FAMILY: KsfFamily = KsfFamily::Identity;
    fn make(a: &KsfArg) -> Option<Self> {
        match a {
            KsfArg::Absent => None,
            KsfArg::Identity => Some(opaque_ke::ksf::Identity),
            other => panic!("harness: KsfArg {other:?} given to an Identity suite"),
        }
    }
}

impl KsfMake for argon2::Argon2<'static> {
    const FAMILY: KsfFamily = KsfFamily::Argon2;
    fn make(a: &KsfArg) -> Option<Self> {
        match a {
            KsfArg::Absent => None,
            KsfArg::Argon2Default => Some(argon2::Argon2::default()),
            KsfArg::Argon2 { m, t, p } => Some(argon2::Argon2::new(
                argon2::Algorithm::Argon2id,
                argon2::Version::V0x13,
                argon2::Params::new(*m, *t, *p, None).expect("harness: argon2 params"),
            )),
            KsfArg::Argon2Alg { alg, v10, m, t, p } => Some(argon2::Argon2::new(
                match alg {
                    0 => argon2::Algorithm::Argon2d,
                    1 => argon2::Algorithm::Argon2i,
                    _ => argon2::Algorithm::Argon2id,
                },
                if *v10 { argon2::Version::V0x10 } else { argon2::Version::V0x13 },
                argon2::Params::new(*m, *t, *p, None).expect("harness: argon2 params"),
            )),
            KsfArg::Argon2Out { out } => Some(argon2::Argon2::new(
                argon2::Algorithm::Argon2id,
                argon2::Version::V0x13,
                argon2::Params::new(8, 1, 1, Some(*out as usize)).expect("harness: argon2 params"),
            )),
            other => panic!("harness: KsfArg {other:?} given to an Argon2 suite"),
        }
    }
}

// ------------------------------------------------------------------ group tags

pub trait GrpTag {
    const GRP: Grp;
}
impl GrpTag for opaque_ke::Ristretto255 {
    const GRP: Grp = Grp::Ristretto255;
}
impl GrpTag for p256::NistP256 {
    const GRP: Grp = Grp::P256;
}
impl GrpTag for p384::NistP384 {
    const GRP: Grp = Grp::P384;
}
impl GrpTag for p521::NistP521 {
    const GRP: Grp = Grp::P521;
}
impl GrpTag for opaque_ke::Curve25519 {
    const GRP: Grp = Grp::Curve25519;
}

// ------------------------------------------------------------------ helpers usable inside the macro

pub fn live<T: 'static>(kind: Kind, t: T) -> Item {
    Item {
        kind,
        c: Carrier::Live(Rc::new(t)),
    }
}

pub fn ser_bincode<T: serde::Serialize>(t: &T) -> R<Vec<u8>> {
    bincode::serialize(t).map_err(|e| Fail {
        kind: ErrKind::Serde(format!("bincode ser: {e}")),
        stage: Stage::Op,
    })
}
pub fn ser_json<T: serde::Serialize>(t: &T) -> R<Vec<u8>> {
    serde_json::to_vec(t).map_err(|e| Fail {
        kind: ErrKind::Serde(format!("json ser: {e}")),
        stage: Stage::Op,
    })
}
pub fn de_bincode<T: serde::de::DeserializeOwned>(b: &[u8]) -> Result<T, ErrKind> {
    // the call a user of the crate makes
    bincode::deserialize::<T>(b)
        .map_err(|e| ErrKind::Serde(format!("bincode: {e}")))
}
pub fn de_json<T: serde::de::DeserializeOwned>(b: &[u8]) -> Result<T, ErrKind> {
    serde_json::from_slice::<T>(b).map_err(|e| ErrKind::Serde(format!("json: {e}")))
}

pub fn ids_of(ids: &Ids) -> Identifiers<'_> {
    Identifiers {
        client: ids.client.as_ref().map(|h| h.0.as_slice()),
        server: ids.server.as_ref().map(|h| h.0.as_slice()),
    }
}

// ------------------------------------------------------------------ the macro

#[macro_export]
macro_rules! dec_arm {
    ($kind:expr, $codec:expr, $bytes:expr, $T:ty) => {{
        let r: Result<$T, ErrKind> = match $codec {
            Codec::Native | Codec::Mem => <$T>::deserialize($bytes).map_err(map_err),
            Codec::Bincode => de_bincode::<$T>($bytes),
            Codec::Json => de_json::<$T>($bytes),
        };
        r.map(|t| live($kind, t)).map_err(|k| dec_fail("bytes", k))
    }};
}

#[macro_export]
macro_rules! enc_arm {
    ($rc:expr, $codec:expr, $T:ty) => {{
        let t = $rc
            .downcast_ref::<$T>()
            .expect("harness: downcast in encode");
        match $codec {
            Codec::Native | Codec::Mem => Ok(t.serialize().to_vec()),
            Codec::Bincode => ser_bincode(t),
            Codec::Json => ser_json(t),
        }
    }};
}

#[macro_export]
macro_rules! suite {
    ($name:ident, $label:expr, $oprf:ty, $ke:ty, $ksf:ty) => {
        pub struct $name;

        impl CipherSuite for $name {
            type OprfCs = $oprf;
            type KeGroup = $ke;
            type KeyExchange = TripleDh;
            type Ksf = $ksf;
        }

        impl $name {
            /// Resolve an `Item` of a given kind to a live, owned object.
            fn obj<T: Clone + 'static>(
                arg: &str,
                item: &Item,
                want: Kind,
                nat: impl Fn(&[u8]) -> Result<T, ErrKind>,
                bin: impl Fn(&[u8]) -> Result<T, ErrKind>,
                json: impl Fn(&[u8]) -> Result<T, ErrKind>,
            ) -> R<T> {
                if item.kind != want {
                    // cross-kind delivery: treat the carrier's *bytes* as the wanted kind
                    match &item.c {
                        Carrier::Bytes(codec, b) => {
                            return match codec {
                                Codec::Native | Codec::Mem => nat(b),
                                Codec::Bincode => bin(b),
                                Codec::Json => json(b),
                            }
                            .map_err(|k| dec_fail(arg, k));
                        }
                        Carrier::Live(_) => {
                            panic!("harness: live {:?} passed where {:?} wanted", item.kind, want)
                        }
                    }
                }
                match &item.c {
                    Carrier::Live(rc) => Ok(rc
                        .downcast_ref::<T>()
                        .unwrap_or_else(|| panic!("harness: downcast {:?}", want))
                        .clone()),
                    Carrier::Bytes(codec, b) => match codec {
                        Codec::Native | Codec::Mem => nat(b),
                        Codec::Bincode => bin(b),
                        Codec::Json => json(b),
                    }
                    .map_err(|k| dec_fail(arg, k)),
                }
            }
        }

        impl SuiteOps for $name {
            fn name(&self) -> &'static str {
                $label
            }
            fn oprf(&self) -> Grp {
                <$oprf as GrpTag>::GRP
            }
            fn ke(&self) -> Grp {
                <$ke as GrpTag>::GRP
            }
            fn ksf_family(&self) -> KsfFamily {
                <$ksf as KsfMake>::FAMILY
            }
            fn lens(&self) -> Lens {
                type G = <$oprf as voprf::CipherSuite>::Group;
                Lens {
                    noe: <G as voprf::Group>::ElemLen::USIZE,
                    nok: <G as voprf::Group>::ScalarLen::USIZE,
                    npk: <$ke as KeGroup>::PkLen::USIZE,
                    nsk: <$ke as KeGroup>::SkLen::USIZE,
                    nh: <<<$oprf as voprf::CipherSuite>::Hash as digest::OutputSizeUser>::OutputSize as Unsigned>::USIZE,
                    nn: 32,
                }
            }

            fn decode(&self, kind: Kind, codec: Codec, bytes: &[u8]) -> R<Item> {
                guard(|| {
                    match kind {
                        Kind::RegReq => dec_arm!(kind, codec, bytes, RegistrationRequest<$name>),
                        Kind::RegResp => dec_arm!(kind, codec, bytes, RegistrationResponse<$name>),
                        Kind::RegUpload => dec_arm!(kind, codec, bytes, RegistrationUpload<$name>),
                        Kind::CredReq => dec_arm!(kind, codec, bytes, CredentialRequest<$name>),
                        Kind::CredResp => dec_arm!(kind, codec, bytes, CredentialResponse<$name>),
                        Kind::CredFin => dec_arm!(kind, codec, bytes, CredentialFinalization<$name>),
                        Kind::PwFile => dec_arm!(kind, codec, bytes, ServerRegistration<$name>),
                        Kind::Setup => dec_arm!(kind, codec, bytes, ServerSetup<$name>),
                        Kind::SetupHsm => dec_arm!(kind, codec, bytes, ServerSetup<$name, SimHsm<$ke>>),
                        Kind::ClientReg => dec_arm!(kind, codec, bytes, ClientRegistration<$name>),
                        Kind::ClientLogin => dec_arm!(kind, codec, bytes, ClientLogin<$name>),
                        Kind::ServerLogin => dec_arm!(kind, codec, bytes, ServerLogin<$name>),
                    }
                })
            }

            fn encode(&self, item: &Item, codec: Codec) -> R<Vec<u8>> {
                let it = match &item.c {
                    Carrier::Live(_) => item.clone(),
                    Carrier::Bytes(c, b) => self.decode(item.kind, *c, b)?,
                };
                let rc = match &it.c {
                    Carrier::Live(rc) => rc.clone(),
                    _ => unreachable!(),
                };
                guard(|| {
                    match it.kind {
                        Kind::RegReq => enc_arm!(rc, codec, RegistrationRequest<$name>),
                        Kind::RegResp => enc_arm!(rc, codec, RegistrationResponse<$name>),
                        Kind::RegUpload => enc_arm!(rc, codec, RegistrationUpload<$name>),
                        Kind::CredReq => enc_arm!(rc, codec, CredentialRequest<$name>),
                        Kind::CredResp => enc_arm!(rc, codec, CredentialResponse<$name>),
                        Kind::CredFin => enc_arm!(rc, codec, CredentialFinalization<$name>),
                        Kind::PwFile => enc_arm!(rc, codec, ServerRegistration<$name>),
                        Kind::Setup => enc_arm!(rc, codec, ServerSetup<$name>),
                        Kind::SetupHsm => enc_arm!(rc, codec, ServerSetup<$name, SimHsm<$ke>>),
                        Kind::ClientReg => enc_arm!(rc, codec, ClientRegistration<$name>),
                        Kind::ClientLogin => enc_arm!(rc, codec, ClientLogin<$name>),
                        Kind::ServerLogin => enc_arm!(rc, codec, ServerLogin<$name>),
                    }
                })
            }

            fn server_setup_new(&self, rng: &mut SimRng) -> R<Item> {
                guard(|| Ok(live(Kind::Setup, ServerSetup::<$name>::new(rng))))
            }

            fn server_setup_new_hsm(&self, rng: &mut SimRng, sk: &[u8]) -> R<Item> {
                guard(|| {
                    let key = <SimHsm<$ke> as SecretKey<$ke>>::deserialize(sk)
                        .map_err(|e| op_err(ProtocolError::from(e)))?;
                    let kp = KeyPair::<$ke, SimHsm<$ke>>::from_private_key(key).map_err(op_err)?;
                    Ok(live(
                        Kind::SetupHsm,
                        ServerSetup::<$name, SimHsm<$ke>>::new_with_key(rng, kp),
                    ))
                })
            }

            fn setup_public_key(&self, setup: &Item) -> R<Vec<u8>> {
                guard(|| match setup.kind {
                    Kind::SetupHsm => {
                        let s = Self::obj::<ServerSetup<$name, SimHsm<$ke>>>(
                            "setup",
                            setup,
                            Kind::SetupHsm,
                            |b| ServerSetup::deserialize(b).map_err(map_err),
                            de_bincode,
                            de_json,
                        )?;
                        Ok(s.keypair().public().serialize().to_vec())
                    }
                    _ => {
                        let s = Self::obj::<ServerSetup<$name>>(
                            "setup",
                            setup,
                            Kind::Setup,
                            |b| ServerSetup::deserialize(b).map_err(map_err),
                            de_bincode,
                            de_json,
                        )?;
                        Ok(s.keypair().public().serialize().to_vec())
                    }
                })
            }

            fn key_api(&self, which: u8, bytes: &[u8]) -> R<Vec<u8>> {
                guard(|| match which {
                    0 => {
                        let pk = opaque_ke::keypair::PublicKey::<$ke>::deserialize(bytes)
                            .map_err(|e| op_err(ProtocolError::from(e)))?;
                        Ok(pk.serialize().to_vec())
                    }
                    1 => {
                        let sk = <opaque_ke::keypair::PrivateKey<$ke> as SecretKey<$ke>>::deserialize(bytes)
                            .map_err(|e| op_err(ProtocolError::from(e)))?;
                        let pk = sk.public_key().map_err(|e| op_err(ProtocolError::from(e)))?;
                        let mut v = sk.serialize().to_vec();
                        v.extend_from_slice(&pk.serialize());
                        Ok(v)
                    }
                    2 => {
                        let kp = KeyPair::<$ke>::from_private_key_slice(bytes).map_err(op_err)?;
                        let mut v = kp.private().serialize().to_vec();
                        v.extend_from_slice(&kp.public().serialize());
                        Ok(v)
                    }
                    3 => {
                        let kp = KeyPair::<$ke, SimHsm<$ke>>::from_private_key_slice(bytes).map_err(op_err)?;
                        let mut v = kp.private().serialize().to_vec();
                        v.extend_from_slice(&kp.public().serialize());
                        Ok(v)
                    }
                    // a server setup whose key container serializes to 200 bytes
                    4 => {
                        let s = ServerSetup::<$name, $crate::seams::SimHsmWide<$ke>>::deserialize(bytes).map_err(op_err)?;
                        Ok(s.serialize().to_vec())
                    }
                    // KeGroup::random_sk on a tape derived from `bytes`: the documented way to make
                    // the key for ServerSetup::new_with_key
                    6 => {
                        use opaque_ke::key_exchange::group::KeGroup;
                        // the whole tape is a function of `bytes` (rejection sampling on P-521
                        // reads far beyond any fixed prefix)
                        let seed = bytes.iter().fold(0xcbf29ce484222325u64, |h, b| (h ^ *b as u64).wrapping_mul(0x100000001b3));
                        let mut rng = SimRng::new(seed, "keyapi/random_sk");
                        let sk = <$ke as KeGroup>::random_sk(&mut rng);
                        let mut v = <$ke as KeGroup>::serialize_sk(sk).to_vec();
                        v.extend_from_slice(&<$ke as KeGroup>::serialize_pk(<$ke as KeGroup>::public_key(sk)));
                        Ok(v)
                    }
                    // bytes = raw scalar: build such a setup and return its stored form
                    _ => {
                        let sk = <opaque_ke::keypair::PrivateKey<$ke> as SecretKey<$ke>>::deserialize(bytes)
                            .map_err(|e| op_err(ProtocolError::from(e)))?;
                        let kp = KeyPair::<$ke, $crate::seams::SimHsmWide<$ke>>::from_private_key($crate::seams::SimHsmWide::wrap(sk)).map_err(op_err)?;
                        let mut rng = SimRng::new(0, "keyapi/wide-setup");
                        let s = ServerSetup::<$name, $crate::seams::SimHsmWide<$ke>>::new_with_key(&mut rng, kp);
                        Ok(s.serialize().to_vec())
                    }
                })
            }

            fn client_reg_start(&self, rng: &mut SimRng, pw: &[u8]) -> R<(Item, Item)> {
                guard(|| {
                    let r = ClientRegistration::<$name>::start(rng, pw).map_err(op_err)?;
                    Ok((live(Kind::ClientReg, r.state), live(Kind::RegReq, r.message)))
                })
            }

            fn server_reg_start(&self, setup: &Item, req: &Item, cred_id: &[u8]) -> R<Item> {
                guard(|| {
                    let req = Self::obj::<RegistrationRequest<$name>>(
                        "req",
                        req,
                        Kind::RegReq,
                        |b| RegistrationRequest::deserialize(b).map_err(map_err),
                        de_bincode,
                        de_json,
                    )?;
                    let msg = match setup.kind {
                        Kind::SetupHsm => {
                            let s = Self::obj::<ServerSetup<$name, SimHsm<$ke>>>(
                                "setup",
                                setup,
                                Kind::SetupHsm,
                                |b| ServerSetup::deserialize(b).map_err(map_err),
                                de_bincode,
                                de_json,
                            )?;
                            ServerRegistration::<$name>::start(&s, req, cred_id)
                                .map_err(op_err)?
                                .message
                        }
                        _ => {
                            let s = Self::obj::<ServerSetup<$name>>(
                                "setup",
                                setup,
                                Kind::Setup,
                                |b| ServerSetup::deserialize(b).map_err(map_err),
                                de_bincode,
                                de_json,
                            )?;
                            ServerRegistration::<$name>::start(&s, req, cred_id)
                                .map_err(op_err)?
                                .message
                        }
                    };
                    Ok(live(Kind::RegResp, msg))
                })
            }

            fn client_reg_finish(
                &self,
                rng: &mut SimRng,
                state: &Item,
                pw: &[u8],
                resp: &Item,
                ids: &Ids,
                ksf: &KsfArg,
            ) -> R<RegFinishOut> {
                guard(|| {
                    let st = Self::obj::<ClientRegistration<$name>>(
                        "state",
                        state,
                        Kind::ClientReg,
                        |b| ClientRegistration::deserialize(b).map_err(map_err),
                        de_bincode,
                        de_json,
                    )?;
                    let resp = Self::obj::<RegistrationResponse<$name>>(
                        "resp",
                        resp,
                        Kind::RegResp,
                        |b| RegistrationResponse::deserialize(b).map_err(map_err),
                        de_bincode,
                        de_json,
                    )?;
                    let k = <$ksf as KsfMake>::make(ksf);
                    // both spellings the API offers: the constructor and the struct literal
                    let params = if pw.len() % 2 == 0 {
                        ClientRegistrationFinishParameters::<$name>::new(ids_of(ids), k.as_ref())
                    } else {
                        ClientRegistrationFinishParameters::<$name> { identifiers: ids_of(ids), ksf: k.as_ref() }
                    };
                    let r = st.finish(rng, pw, resp, params).map_err(op_err)?;
                    Ok(RegFinishOut {
                        upload: live(Kind::RegUpload, r.message),
                        export_key: r.export_key.to_vec(),
                        server_pk: r.server_s_pk.serialize().to_vec(),
                    })
                })
            }

            fn server_reg_finish(&self, upload: &Item) -> R<Item> {
                guard(|| {
                    let up = Self::obj::<RegistrationUpload<$name>>(
                        "upload",
                        upload,
                        Kind::RegUpload,
                        |b| RegistrationUpload::deserialize(b).map_err(map_err),
                        de_bincode,
                        de_json,
                    )?;
                    Ok(live(Kind::PwFile, ServerRegistration::<$name>::finish(up)))
                })
            }

            fn client_login_start(&self, rng: &mut SimRng, pw: &[u8]) -> R<(Item, Item)> {
                guard(|| {
                    let r = ClientLogin::<$name>::start(rng, pw).map_err(op_err)?;
                    Ok((
                        live(Kind::ClientLogin, r.state),
                        live(Kind::CredReq, r.message),
                    ))
                })
            }

            fn server_login_start(
                &self,
                rng: &mut SimRng,
                setup: &Item,
                record: Option<&Item>,
                req: &Item,
                cred_id: &[u8],
                ctx: Option<&[u8]>,
                ids: &Ids,
            ) -> R<(Item, Item)> {
                guard(|| {
                    let req = Self::obj::<CredentialRequest<$name>>(
                        "req",
                        req,
                        Kind::CredReq,
                        |b| CredentialRequest::deserialize(b).map_err(map_err),
                        de_bincode,
                        de_json,
                    )?;
                    let rec = match record {
                        None => None,
                        Some(r) => Some(Self::obj::<ServerRegistration<$name>>(
                            "record",
                            r,
                            Kind::PwFile,
                            |b| ServerRegistration::deserialize(b).map_err(map_err),
                            de_bincode,
                            de_json,
                        )?),
                    };
                    let params = ServerLoginStartParameters {
                        context: ctx,
                        identifiers: ids_of(ids),
                    };
                    let (state, message) = match setup.kind {
                        Kind::SetupHsm => {
                            let s = Self::obj::<ServerSetup<$name, SimHsm<$ke>>>(
                                "setup",
                                setup,
                                Kind::SetupHsm,
                                |b| ServerSetup::deserialize(b).map_err(map_err),
                                de_bincode,
                                de_json,
                            )?;
                            let r = ServerLogin::<$name>::start(rng, &s, rec, req, cred_id, params)
                                .map_err(op_err)?;
                            (r.state, r.message)
                        }
                        _ => {
                            let s = Self::obj::<ServerSetup<$name>>(
                                "setup",
                                setup,
                                Kind::Setup,
                                |b| ServerSetup::deserialize(b).map_err(map_err),
                                de_bincode,
                                de_json,
                            )?;
                            let r = ServerLogin::<$name>::start(rng, &s, rec, req, cred_id, params)
                                .map_err(op_err)?;
                            (r.state, r.message)
                        }
                    };
                    Ok((live(Kind::ServerLogin, state), live(Kind::CredResp, message)))
                })
            }

            fn client_login_finish(
                &self,
                state: &Item,
                pw: &[u8],
                resp: &Item,
                ctx: Option<&[u8]>,
                ids: &Ids,
                ksf: &KsfArg,
            ) -> R<LoginFinishOut> {
                guard(|| {
                    let st = Self::obj::<ClientLogin<$name>>(
                        "state",
                        state,
                        Kind::ClientLogin,
                        |b| ClientLogin::deserialize(b).map_err(map_err),
                        de_bincode,
                        de_json,
                    )?;
                    let resp = Self::obj::<CredentialResponse<$name>>(
                        "resp",
                        resp,
                        Kind::CredResp,
                        |b| CredentialResponse::deserialize(b).map_err(map_err),
                        de_bincode,
                        de_json,
                    )?;
                    let k = <$ksf as KsfMake>::make(ksf);
                    let params = if pw.len() % 2 == 0 {
                        ClientLoginFinishParameters::<$name>::new(ctx, ids_of(ids), k.as_ref())
                    } else {
                        ClientLoginFinishParameters::<$name> { context: ctx, identifiers: ids_of(ids), ksf: k.as_ref() }
                    };
                    let r = st.finish(pw, resp, params).map_err(op_err)?;
                    Ok(LoginFinishOut {
                        fin: live(Kind::CredFin, r.message),
                        session_key: r.session_key.to_vec(),
                        export_key: r.export_key.to_vec(),
                        server_pk: r.server_s_pk.serialize().to_vec(),
                    })
                })
            }

            fn server_login_finish(&self, state: &Item, fin: &Item) -> R<Vec<u8>> {
                guard(|| {
                    let st = Self::obj::<ServerLogin<$name>>(
                        "state",
                        state,
                        Kind::ServerLogin,
                        |b| ServerLogin::deserialize(b).map_err(map_err),
                        de_bincode,
                        de_json,
                    )?;
                    let fin = Self::obj::<CredentialFinalization<$name>>(
                        "fin",
                        fin,
                        Kind::CredFin,
                        |b| CredentialFinalization::deserialize(b).map_err(map_err),
                        de_bincode,
                        de_json,
                    )?;
                    let r = st.finish(fin).map_err(op_err)?;
                    Ok(r.session_key.to_vec())
                })
            }
        }
    };
}


//! Probe for key-stretching types without fields (seeded change R8C15-B: "a
//! zero-sized Ksf must be the no-op"). One fixed suite (ristretto255 OPRF,
//! ristretto255 3DH, SHA-512) instantiated twice: with the unit struct
//! `SimKsfUnit` and with `SimKsf`, which computes the same function when given
//! `SimKsf { tag: SIMKSF_UNIT_TAG }`. The same registration + login is run on
//! the same tapes under both; everything observable must be byte-identical,
//! each client finish step must make exactly one logged call, and an injected
//! failure must come back as an error.

use opaque_ke::{
    CipherSuite, ClientLogin, ClientLoginFinishParameters, ClientRegistration,
    ClientRegistrationFinishParameters, Identifiers, ServerLogin, ServerLoginStartParameters,
    ServerRegistration, ServerSetup,
};

use crate::rng::SimRng;
use crate::seams::{ksf_reset, ksf_take_log, KsfCall, SimKsf, SimKsfUnit, SIMKSF_UNIT_TAG};

pub struct UnitSuite;
impl CipherSuite for UnitSuite {
    type OprfCs = opaque_ke::Ristretto255;
    type KeGroup = opaque_ke::Ristretto255;
    type KeyExchange = opaque_ke::key_exchange::tripledh::TripleDh;
    type Ksf = SimKsfUnit;
}
pub struct TagSuite;
impl CipherSuite for TagSuite {
    type OprfCs = opaque_ke::Ristretto255;
    type KeGroup = opaque_ke::Ristretto255;
    type KeyExchange = opaque_ke::key_exchange::tripledh::TripleDh;
    type Ksf = SimKsf;
}

#[derive(Debug, PartialEq, Eq)]
pub struct FlowOut {
    /// per client finish step (registration, login): the logged KSF calls
    pub reg_calls: Vec<(u32, Vec<u8>, bool)>,
    pub login_calls: Vec<(u32, Vec<u8>, bool)>,
    /// Err(text) if the step failed
    pub reg: Result<(Vec<u8>, Vec<u8>), String>,
    pub login: Result<(Vec<u8>, Vec<u8>, Vec<u8>), String>,
    pub server_key: Option<Vec<u8>>,
}

fn calls(v: Vec<KsfCall>) -> Vec<(u32, Vec<u8>, bool)> {
    v.into_iter().map(|c| (c.tag, c.input, c.failed)).collect()
}

macro_rules! flow {
    ($fname:ident, $cs:ty, $ksf:expr) => {
        /// `explicit`: pass the instance in the finish parameters (else `None` = `Default`);
        /// `fail_reg` / `fail_login`: make the n-th KSF call of that step fail
        pub fn $fname(seed: u64, pw: &[u8], explicit: bool, fail_reg: Option<usize>, fail_login: Option<usize>) -> FlowOut {
            let mut out = FlowOut { reg_calls: vec![], login_calls: vec![], reg: Err("not reached".into()), login: Err("not reached".into()), server_key: None };
            let mut rng = SimRng::new(seed, "unitksf");
            let ksf = $ksf;
            let k = if explicit { Some(&ksf) } else { None };
            let setup = ServerSetup::<$cs>::new(&mut rng);
            let c0 = match ClientRegistration::<$cs>::start(&mut rng, pw) {
                Ok(x) => x,
                Err(e) => { out.reg = Err(format!("{e:?}")); return out; }
            };
            let s0 = match ServerRegistration::<$cs>::start(&setup, c0.message, b"unit-user") {
                Ok(x) => x,
                Err(e) => { out.reg = Err(format!("{e:?}")); return out; }
            };
            ksf_reset(fail_reg);
            let fin = c0.state.finish(&mut rng, pw, s0.message, ClientRegistrationFinishParameters::new(Identifiers::default(), k));
            out.reg_calls = calls(ksf_take_log());
            ksf_reset(None);
            let fin = match fin {
                Ok(x) => x,
                Err(e) => { out.reg = Err(format!("{e:?}")); return out; }
            };
            out.reg = Ok((fin.message.serialize().to_vec(), fin.export_key.to_vec()));
            let record = ServerRegistration::<$cs>::finish(fin.message);
            let c1 = match ClientLogin::<$cs>::start(&mut rng, pw) {
                Ok(x) => x,
                Err(e) => { out.login = Err(format!("{e:?}")); return out; }
            };
            let s1 = match ServerLogin::<$cs>::start(&mut rng, &setup, Some(record), c1.message, b"unit-user", ServerLoginStartParameters::default()) {
                Ok(x) => x,
                Err(e) => { out.login = Err(format!("{e:?}")); return out; }
            };
            ksf_reset(fail_login);
            let lf = c1.state.finish(pw, s1.message, ClientLoginFinishParameters::new(None, Identifiers::default(), k));
            out.login_calls = calls(ksf_take_log());
            ksf_reset(None);
            let lf = match lf {
                Ok(x) => x,
                Err(e) => { out.login = Err(format!("{e:?}")); return out; }
            };
            out.login = Ok((lf.message.serialize().to_vec(), lf.session_key.to_vec(), lf.export_key.to_vec()));
            out.server_key = s1.state.finish(lf.message).ok().map(|f| f.session_key.to_vec());
            out
        }
    };
}

flow!(flow_unit, UnitSuite, SimKsfUnit);
flow!(flow_tag, TagSuite, SimKsf { tag: SIMKSF_UNIT_TAG });

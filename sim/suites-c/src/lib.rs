//! Macro-stamped cipher-suite instantiations (see sim-core::suite).
#![allow(clippy::all)]
use sim_core::rng::SimRng;
use sim_core::seams::{SimHsm, SimKsf};
use sim_core::suite::*;
use sim_core::{dec_arm, enc_arm, suite};

use generic_array::typenum::Unsigned;
use opaque_ke::errors::ProtocolError;
use opaque_ke::key_exchange::group::KeGroup;
use opaque_ke::key_exchange::tripledh::TripleDh;
use opaque_ke::keypair::{KeyPair, SecretKey};
use opaque_ke::{
    CipherSuite, ClientLogin, ClientLoginFinishParameters, ClientRegistration,
    ClientRegistrationFinishParameters, CredentialFinalization, CredentialRequest,
    CredentialResponse, RegistrationRequest, RegistrationResponse, RegistrationUpload, ServerLogin,
    ServerLoginStartParameters, ServerRegistration, ServerSetup,
};

#[allow(dead_code)]
type Ris = opaque_ke::Ristretto255;
#[allow(dead_code)]
type P256 = p256::NistP256;
#[allow(dead_code)]
type P384 = p384::NistP384;
#[allow(dead_code)]
type P521 = p521::NistP521;
#[allow(dead_code)]
type X25519 = opaque_ke::Curve25519;
#[allow(dead_code)]
type IdKsf = opaque_ke::ksf::Identity;
#[allow(dead_code)]
type Argon = argon2::Argon2<'static>;

suite!(IRisRis, "ristretto255/ristretto255/identity", Ris, Ris, IdKsf);
suite!(IRisP256, "ristretto255/p256/identity", Ris, P256, IdKsf);
suite!(IRisP384, "ristretto255/p384/identity", Ris, P384, IdKsf);
suite!(IRisP521, "ristretto255/p521/identity", Ris, P521, IdKsf);
suite!(IRisX, "ristretto255/curve25519/identity", Ris, X25519, IdKsf);
suite!(IP256Ris, "p256/ristretto255/identity", P256, Ris, IdKsf);
suite!(IP256P256, "p256/p256/identity", P256, P256, IdKsf);
suite!(IP256P384, "p256/p384/identity", P256, P384, IdKsf);
suite!(IP256P521, "p256/p521/identity", P256, P521, IdKsf);
suite!(IP256X, "p256/curve25519/identity", P256, X25519, IdKsf);

pub static SUITES: [&dyn SuiteOps; 10] = [&IRisRis, &IRisP256, &IRisP384, &IRisP521, &IRisX, &IP256Ris, &IP256P256, &IP256P384, &IP256P521, &IP256X];

//! Macro-stamped cipher-suite instantiations (see sim-core::suite).
#![allow(clippy::all)]
use sim_core::rng::SimRng;
use sim_core::seams::{SimHsm, SimKsf};
use sim_core::suite::*;
use sim_core::{dec_arm, enc_arm, suite};

use generic_array::typenum::Unsigned;
use opaque_ke::errors::ProtocolError;
use opaque_ke::key_exchange::group::KeGroup;
use opaque_ke::key_exchange::tripledh::TripleDh;
use opaque_ke::keypair::{KeyPair, SecretKey};
use opaque_ke::{
    CipherSuite, ClientLogin, ClientLoginFinishParameters, ClientRegistration,
    ClientRegistrationFinishParameters, CredentialFinalization, CredentialRequest,
    CredentialResponse, RegistrationRequest, RegistrationResponse, RegistrationUpload, ServerLogin,
    ServerLoginStartParameters, ServerRegistration, ServerSetup,
};

#[allow(dead_code)]
type Ris = opaque_ke::Ristretto255;
#[allow(dead_code)]
type P256 = p256::NistP256;
#[allow(dead_code)]
type P384 = p384::NistP384;
#[allow(dead_code)]
type P521 = p521::NistP521;
#[allow(dead_code)]
type X25519 = opaque_ke::Curve25519;
#[allow(dead_code)]
type IdKsf = opaque_ke::ksf::Identity;
#[allow(dead_code)]
type Argon = argon2::Argon2<'static>;

suite!(SRisRis, "ristretto255/ristretto255/sim", Ris, Ris, SimKsf);
suite!(SRisP256, "ristretto255/p256/sim", Ris, P256, SimKsf);
suite!(SRisP384, "ristretto255/p384/sim", Ris, P384, SimKsf);
suite!(SRisP521, "ristretto255/p521/sim", Ris, P521, SimKsf);
suite!(SRisX, "ristretto255/curve25519/sim", Ris, X25519, SimKsf);
suite!(SP256Ris, "p256/ristretto255/sim", P256, Ris, SimKsf);
suite!(SP256P256, "p256/p256/sim", P256, P256, SimKsf);
suite!(SP256P384, "p256/p384/sim", P256, P384, SimKsf);
suite!(SP256P521, "p256/p521/sim", P256, P521, SimKsf);
suite!(SP256X, "p256/curve25519/sim", P256, X25519, SimKsf);

pub static SUITES: [&dyn SuiteOps; 10] = [&SRisRis, &SRisP256, &SRisP384, &SRisP521, &SRisX, &SP256Ris, &SP256P256, &SP256P384, &SP256P521, &SP256X];

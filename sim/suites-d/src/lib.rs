//! Macro-stamped cipher-suite instantiations (see sim-core::suite).
#![allow(clippy::all)]
use sim_core::rng::SimRng;
use sim_core::seams::{SimHsm, SimKsf};
use sim_core::suite::*;
use sim_core::{dec_arm, enc_arm, suite};

use generic_array::typenum::Unsigned;
use opaque_ke::errors::ProtocolError;
use opaque_ke::key_exchange::group::KeGroup;
use opaque_ke::key_exchange::tripledh::TripleDh;
use opaque_ke::keypair::{KeyPair, SecretKey};
use opaque_ke::{
    CipherSuite, ClientLogin, ClientLoginFinishParameters, ClientRegistration,
    ClientRegistrationFinishParameters, CredentialFinalization, CredentialRequest,
    CredentialResponse, RegistrationRequest, RegistrationResponse, RegistrationUpload, ServerLogin,
    ServerLoginStartParameters, ServerRegistration, ServerSetup,
};

#[allow(dead_code)]
type Ris = opaque_ke::Ristretto255;
#[allow(dead_code)]
type P256 = p256::NistP256;
#[allow(dead_code)]
type P384 = p384::NistP384;
#[allow(dead_code)]
type P521 = p521::NistP521;
#[allow(dead_code)]
type X25519 = opaque_ke::Curve25519;
#[allow(dead_code)]
type IdKsf = opaque_ke::ksf::Identity;
#[allow(dead_code)]
type Argon = argon2::Argon2<'static>;

suite!(IP384Ris, "p384/ristretto255/identity", P384, Ris, IdKsf);
suite!(IP384P256, "p384/p256/identity", P384, P256, IdKsf);
suite!(IP384P384, "p384/p384/identity", P384, P384, IdKsf);
suite!(IP384P521, "p384/p521/identity", P384, P521, IdKsf);
suite!(IP384X, "p384/curve25519/identity", P384, X25519, IdKsf);
suite!(IP521Ris, "p521/ristretto255/identity", P521, Ris, IdKsf);
suite!(IP521P256, "p521/p256/identity", P521, P256, IdKsf);
suite!(IP521P384, "p521/p384/identity", P521, P384, IdKsf);
suite!(IP521P521, "p521/p521/identity", P521, P521, IdKsf);
suite!(IP521X, "p521/curve25519/identity", P521, X25519, IdKsf);
suite!(ARisRis, "ristretto255/ristretto255/argon2", Ris, Ris, Argon);
suite!(AP256P256, "p256/p256/argon2", P256, P256, Argon);
suite!(AP384X, "p384/curve25519/argon2", P384, X25519, Argon);
suite!(AP521P384, "p521/p384/argon2", P521, P384, Argon);

pub static SUITES: [&dyn SuiteOps; 14] = [&IP384Ris, &IP384P256, &IP384P384, &IP384P521, &IP384X, &IP521Ris, &IP521P256, &IP521P384, &IP521P521, &IP521X, &ARisRis, &AP256P256, &AP384X, &AP521P384];

//! Registry of the 44 suite instantiations (compiled in the `suites-*` crates).
pub use sim_core::suite::*;

pub fn sim_suites() -> Vec<&'static dyn SuiteOps> {
    suites_a::SUITES.iter().chain(suites_b::SUITES.iter()).copied().collect()
}
pub fn id_suites() -> Vec<&'static dyn SuiteOps> {
    suites_c::SUITES.iter().chain(suites_d::SUITES.iter()).copied().filter(|s| s.ksf_family() == KsfFamily::Identity).collect()
}
pub fn argon_suites() -> Vec<&'static dyn SuiteOps> {
    suites_d::SUITES.iter().copied().filter(|s| s.ksf_family() == KsfFamily::Argon2).collect()
}

pub struct Lazy(fn() -> Vec<&'static dyn SuiteOps>);
impl Lazy {
    pub fn to_vec(&self) -> Vec<&'static dyn SuiteOps> {
        (self.0)()
    }
    pub fn iter(&self) -> std::vec::IntoIter<&'static dyn SuiteOps> {
        (self.0)().into_iter()
    }
}
pub static SIM_SUITES: Lazy = Lazy(sim_suites);
pub static ID_SUITES: Lazy = Lazy(id_suites);
pub static ARGON_SUITES: Lazy = Lazy(argon_suites);

pub fn all_suites() -> Vec<&'static dyn SuiteOps> {
    let mut v = sim_suites();
    v.extend(id_suites());
    v.extend(argon_suites());
    v
}

pub fn suite_by_name(n: &str) -> Option<&'static dyn SuiteOps> {
    all_suites().into_iter().find(|s| s.name() == n)
}

//! Field maps of every native encoding (harness-side knowledge, DESIGN.md
//! Appendix A): which bytes are an OPRF group element, a key-exchange public
//! key, a scalar, or opaque bytes. Used to aim faults at fields.

use crate::suite::{Kind, Lens};

#[derive(Clone, Copy, Debug, PartialEq, Eq)]
pub enum FieldTy {
    OprfElem,
    OprfScalar,
    KePk,
    KeSk,
    Bytes,
}

#[derive(Clone, Debug)]
pub struct Field {
    pub name: &'static str,
    pub off: usize,
    pub len: usize,
    pub ty: FieldTy,
}

fn build(parts: &[(&'static str, usize, FieldTy)]) -> Vec<Field> {
    let mut off = 0;
    let mut v = Vec::new();
    for (name, len, ty) in parts {
        v.push(Field {
            name,
            off,
            len: *len,
            ty: *ty,
        });
        off += len;
    }
    v
}

pub fn fields(kind: Kind, l: &Lens) -> Vec<Field> {
    use FieldTy::*;
    match kind {
        Kind::RegReq => build(&[("blinded_element", l.noe, OprfElem)]),
        Kind::RegResp => build(&[
            ("evaluation_element", l.noe, OprfElem),
            ("server_s_pk", l.npk, KePk),
        ]),
        Kind::RegUpload | Kind::PwFile => build(&[
            ("client_s_pk", l.npk, KePk),
            ("masking_key", l.nh, Bytes),
            ("envelope_nonce", l.nn, Bytes),
            ("envelope_mac", l.nh, Bytes),
        ]),
        Kind::CredReq => build(&[
            ("blinded_element", l.noe, OprfElem),
            ("client_nonce", l.nn, Bytes),
            ("client_e_pk", l.npk, KePk),
        ]),
        Kind::CredResp => build(&[
            ("evaluation_element", l.noe, OprfElem),
            ("masking_nonce", l.nn, Bytes),
            ("masked_response", l.npk + l.nn + l.nh, Bytes),
            ("server_nonce", l.nn, Bytes),
            ("server_e_pk", l.npk, KePk),
            ("server_mac", l.nh, Bytes),
        ]),
        Kind::CredFin => build(&[("client_mac", l.nh, Bytes)]),
        Kind::Setup | Kind::SetupHsm => build(&[
            ("oprf_seed", l.nh, Bytes),
            ("server_sk", l.nsk, KeSk),
            ("fake_sk", l.nsk, KeSk),
        ]),
        Kind::ClientReg => build(&[
            ("blind", l.nok, OprfScalar),
            ("blinded_element", l.noe, OprfElem),
        ]),
        Kind::ClientLogin => build(&[
            ("blind", l.nok, OprfScalar),
            ("blinded_element", l.noe, OprfElem),
            ("client_nonce_msg", l.nn, Bytes),
            ("client_e_pk", l.npk, KePk),
            ("client_e_sk", l.nsk, KeSk),
            ("client_nonce_state", l.nn, Bytes),
        ]),
        Kind::ServerLogin => build(&[
            ("km3", l.nh, Bytes),
            ("hashed_transcript", l.nh, Bytes),
            ("session_key", l.nh, Bytes),
        ]),
    }
}

pub fn total_len(kind: Kind, l: &Lens) -> usize {
    fields(kind, l).iter().map(|f| f.len).sum()
}

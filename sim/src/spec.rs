//! Model B — an executable transcription of RFC 9807 (OPAQUE-3DH) and
//! RFC 9497 (OPRF mode 0), independent of opaque-ke and of the voprf crate.
//! Written dynamically (`Vec<u8>`, runtime suite descriptor) on primitives
//! only: own I2OSP / HMAC / HKDF / expand_message_xmd over the sha2 digests;
//! group arithmetic and hash-to-curve from the curve crates (trusted base).

use sha2::{Digest, Sha256, Sha384, Sha512};

use crate::suite::Grp;

#[derive(Clone, Copy, Debug, PartialEq, Eq)]
pub enum HashAlg {
    Sha256,
    Sha384,
    Sha512,
}

impl HashAlg {
    pub fn out_len(self) -> usize {
        match self {
            HashAlg::Sha256 => 32,
            HashAlg::Sha384 => 48,
            HashAlg::Sha512 => 64,
        }
    }
    pub fn block_len(self) -> usize {
        match self {
            HashAlg::Sha256 => 64,
            _ => 128,
        }
    }
    pub fn hash(self, parts: &[&[u8]]) -> Vec<u8> {
        match self {
            HashAlg::Sha256 => {
                let mut h = Sha256::new();
                for p in parts {
                    h.update(p)
                }
                h.finalize().to_vec()
            }
            HashAlg::Sha384 => {
                let mut h = Sha384::new();
                for p in parts {
                    h.update(p)
                }
                h.finalize().to_vec()
            }
            HashAlg::Sha512 => {
                let mut h = Sha512::new();
                for p in parts {
                    h.update(p)
                }
                h.finalize().to_vec()
            }
        }
    }
    /// RFC 2104
    pub fn hmac(self, key: &[u8], parts: &[&[u8]]) -> Vec<u8> {
        let b = self.block_len();
        let mut k = if key.len() > b { self.hash(&[key]) } else { key.to_vec() };
        k.resize(b, 0);
        let ipad: Vec<u8> = k.iter().map(|x| x ^ 0x36).collect();
        let opad: Vec<u8> = k.iter().map(|x| x ^ 0x5c).collect();
        let mut inner: Vec<&[u8]> = vec![&ipad];
        inner.extend_from_slice(parts);
        let ih = self.hash(&inner);
        self.hash(&[&opad, &ih])
    }
    /// RFC 5869
    pub fn hkdf_extract(self, salt: &[u8], ikm_parts: &[&[u8]]) -> Vec<u8> {
        let zeros = vec![0u8; self.out_len()];
        let salt = if salt.is_empty() { &zeros[..] } else { salt };
        self.hmac(salt, ikm_parts)
    }
    pub fn hkdf_expand(self, prk: &[u8], info_parts: &[&[u8]], len: usize) -> Vec<u8> {
        let mut out = Vec::with_capacity(len + self.out_len());
        let mut t: Vec<u8> = vec![];
        let mut ctr = 1u8;
        while out.len() < len {
            let c = [ctr];
            let mut parts: Vec<&[u8]> = vec![&t];
            parts.extend_from_slice(info_parts);
            parts.push(&c);
            let nt = self.hmac(prk, &parts);
            out.extend_from_slice(&nt);
            t = nt;
            ctr = ctr.wrapping_add(1);
        }
        out.truncate(len);
        out
    }
    /// RFC 9380 section 5.3.1
    pub fn expand_message_xmd(self, msg_parts: &[&[u8]], dst: &[u8], len: usize) -> Vec<u8> {
        let b_in_bytes = self.out_len();
        let s_in_bytes = self.block_len();
        let ell = len.div_ceil(b_in_bytes);
        assert!(ell <= 255 && len <= 65535 && dst.len() <= 255);
        let mut dst_prime = dst.to_vec();
        dst_prime.push(dst.len() as u8);
        let z_pad = vec![0u8; s_in_bytes];
        let l_i_b = (len as u16).to_be_bytes();
        let mut parts: Vec<&[u8]> = vec![&z_pad];
        parts.extend_from_slice(msg_parts);
        parts.push(&l_i_b);
        parts.push(&[0u8]);
        parts.push(&dst_prime);
        let b0 = self.hash(&parts);
        let mut bi = self.hash(&[&b0, &[1u8], &dst_prime]);
        let mut out = bi.clone();
        for i in 2..=ell {
            let x: Vec<u8> = b0.iter().zip(bi.iter()).map(|(a, b)| a ^ b).collect();
            bi = self.hash(&[&x, &[i as u8], &dst_prime]);
            out.extend_from_slice(&bi);
        }
        out.truncate(len);
        out
    }
}

pub fn i2osp(v: usize, n: usize) -> Vec<u8> {
    let b = (v as u64).to_be_bytes();
    assert!(n <= 8 && (n == 8 || v < (1usize << (8 * n))), "i2osp overflow");
    b[8 - n..].to_vec()
}

pub fn oprf_hash(g: Grp) -> HashAlg {
    match g {
        Grp::Ristretto255 => HashAlg::Sha512,
        Grp::P256 => HashAlg::Sha256,
        Grp::P384 => HashAlg::Sha384,
        Grp::P521 => HashAlg::Sha512,
        Grp::Curve25519 => unreachable!("curve25519 is not an OPRF group"),
    }
}

pub fn oprf_identifier(g: Grp) -> &'static [u8] {
    match g {
        Grp::Ristretto255 => b"ristretto255-SHA512",
        Grp::P256 => b"P256-SHA256",
        Grp::P384 => b"P384-SHA384",
        Grp::P521 => b"P521-SHA512",
        Grp::Curve25519 => unreachable!(),
    }
}

/// "OPRFV1-" ‖ I2OSP(mode=0,1) ‖ "-" ‖ identifier
pub fn oprf_context_string(g: Grp) -> Vec<u8> {
    let mut v = b"OPRFV1-".to_vec();
    v.push(0);
    v.push(b'-');
    v.extend_from_slice(oprf_identifier(g));
    v
}

/// CredentialResponsePad: Expand(masking_key, masking_nonce ‖ "CredentialResponsePad", Npk+Nn+Nm)
pub fn credential_response_pad(h: HashAlg, masking_key: &[u8], masking_nonce: &[u8], len: usize) -> Vec<u8> {
    h.hkdf_expand(masking_key, &[masking_nonce, b"CredentialResponsePad"], len)
}

#[cfg(test)]
mod tests {
    use super::*;
    #[test]
    fn hmac_rfc4231_case2() {
        let m = HashAlg::Sha256.hmac(b"Jefe", &[b"what do ya want ", b"for nothing?"]);
        assert_eq!(hex::encode(m), "5bdcc146bf60754e6a042426089575c75a003f089d2739839dec58b964ec3843");
    }
    #[test]
    fn hkdf_rfc5869_case1() {
        let ikm = [0x0bu8; 22];
        let salt: Vec<u8> = (0u8..=0x0c).collect();
        let info: Vec<u8> = (0xf0u8..=0xf9).collect();
        let prk = HashAlg::Sha256.hkdf_extract(&salt, &[&ikm]);
        assert_eq!(hex::encode(&prk), "077709362c2e32df0ddc3f0dc47bba6390b6c73bb50f9c3122ec844ad7c2b3e5");
        let okm = HashAlg::Sha256.hkdf_expand(&prk, &[&info], 42);
        assert_eq!(hex::encode(okm), "3cb25f25faacd57a90434f64d0362f2a2d2d0a90cf1a5a4c5db02d56ecc4c5bf34007208d5b887185865");
    }
    #[test]
    fn xmd_rfc9380_k1() {
        // RFC 9380 K.1, SHA-256, DST "QUUX-V01-CS02-with-expander-SHA256-128", msg "", len 0x20
        let out = HashAlg::Sha256.expand_message_xmd(&[b""], b"QUUX-V01-CS02-with-expander-SHA256-128", 32);
        assert_eq!(hex::encode(out), "68a985b87eb6b46952128911f2a4412bbc302a9d759667f87f7a21d803f07235");
    }
}

//! Model B — an executable transcription of RFC 9807 (OPAQUE-3DH) and
//! RFC 9497 (OPRF mode 0), independent of opaque-ke and of the voprf crate.
//! Written dynamically (`Vec<u8>`, runtime suite descriptor) on primitives
//! only: own I2OSP / HMAC / HKDF / expand_message_xmd over the sha2 digests;
//! group arithmetic and hash-to-curve from the curve crates (trusted base).

use sha2::{Digest, Sha256, Sha384, Sha512};

use crate::suite::Grp;

#[derive(Clone, Copy, Debug, PartialEq, Eq)]
pub enum HashAlg {
    Sha256,
    Sha384,
    Sha512,
}

impl HashAlg {
    pub fn out_len(self) -> usize {
        match self {
            HashAlg::Sha256 => 32,
            HashAlg::Sha384 => 48,
            HashAlg::Sha512 => 64,
        }
    }
    pub fn block_len(self) -> usize {
        match self {
            HashAlg::Sha256 => 64,
            _ => 128,
        }
    }
    pub fn hash(self, parts: &[&[u8]]) -> Vec<u8> {
        match self {
            HashAlg::Sha256 => {
                let mut h = Sha256::new();
                for p in parts {
                    h.update(p)
                }
                h.finalize().to_vec()
            }
            HashAlg::Sha384 => {
                let mut h = Sha384::new();
                for p in parts {
                    h.update(p)
                }
                h.finalize().to_vec()
            }
            HashAlg::Sha512 => {
                let mut h = Sha512::new();
                for p in parts {
                    h.update(p)
                }
                h.finalize().to_vec()
            }
        }
    }
    /// RFC 2104
    pub fn hmac(self, key: &[u8], parts: &[&[u8]]) -> Vec<u8> {
        let b = self.block_len();
        let mut k = if key.len() > b { self.hash(&[key]) } else { key.to_vec() };
        k.resize(b, 0);
        let ipad: Vec<u8> = k.iter().map(|x| x ^ 0x36).collect();
        let opad: Vec<u8> = k.iter().map(|x| x ^ 0x5c).collect();
        let mut inner: Vec<&[u8]> = vec![&ipad];
        inner.extend_from_slice(parts);
        let ih = self.hash(&inner);
        self.hash(&[&opad, &ih])
    }
    /// RFC 5869
    pub fn hkdf_extract(self, salt: &[u8], ikm_parts: &[&[u8]]) -> Vec<u8> {
        let zeros = vec![0u8; self.out_len()];
        let salt = if salt.is_empty() { &zeros[..] } else { salt };
        self.hmac(salt, ikm_parts)
    }
    pub fn hkdf_expand(self, prk: &[u8], info_parts: &[&[u8]], len: usize) -> Vec<u8> {
        let mut out = Vec::with_capacity(len + self.out_len());
        let mut t: Vec<u8> = vec![];
        let mut ctr = 1u8;
        while out.len() < len {
            let c = [ctr];
            let mut parts: Vec<&[u8]> = vec![&t];
            parts.extend_from_slice(info_parts);
            parts.push(&c);
            let nt = self.hmac(prk, &parts);
            out.extend_from_slice(&nt);
            t = nt;
            ctr = ctr.wrapping_add(1);
        }
        out.truncate(len);
        out
    }
    /// RFC 9380 section 5.3.1
    pub fn expand_message_xmd(self, msg_parts: &[&[u8]], dst: &[u8], len: usize) -> Vec<u8> {
        let b_in_bytes = self.out_len();
        let s_in_bytes = self.block_len();
        let ell = len.div_ceil(b_in_bytes);
        assert!(ell <= 255 && len <= 65535 && dst.len() <= 255);
        let mut dst_prime = dst.to_vec();
        dst_prime.push(dst.len() as u8);
        let z_pad = vec![0u8; s_in_bytes];
        let l_i_b = (len as u16).to_be_bytes();
        let mut parts: Vec<&[u8]> = vec![&z_pad];
        parts.extend_from_slice(msg_parts);
        parts.push(&l_i_b);
        parts.push(&[0u8]);
        parts.push(&dst_prime);
        let b0 = self.hash(&parts);
        let mut bi = self.hash(&[&b0, &[1u8], &dst_prime]);
        let mut out = bi.clone();
        for i in 2..=ell {
            let x: Vec<u8> = b0.iter().zip(bi.iter()).map(|(a, b)| a ^ b).collect();
            bi = self.hash(&[&x, &[i as u8], &dst_prime]);
            out.extend_from_slice(&bi);
        }
        out.truncate(len);
        out
    }
}

pub fn i2osp(v: usize, n: usize) -> Vec<u8> {
    let b = (v as u64).to_be_bytes();
    assert!(n <= 8 && (n == 8 || v < (1usize << (8 * n))), "i2osp overflow");
    b[8 - n..].to_vec()
}

pub fn oprf_hash(g: Grp) -> HashAlg {
    match g {
        Grp::Ristretto255 => HashAlg::Sha512,
        Grp::P256 => HashAlg::Sha256,
        Grp::P384 => HashAlg::Sha384,
        Grp::P521 => HashAlg::Sha512,
        Grp::Curve25519 => unreachable!("curve25519 is not an OPRF group"),
    }
}

pub fn oprf_identifier(g: Grp) -> &'static [u8] {
    match g {
        Grp::Ristretto255 => b"ristretto255-SHA512",
        Grp::P256 => b"P256-SHA256",
        Grp::P384 => b"P384-SHA384",
        Grp::P521 => b"P521-SHA512",
        Grp::Curve25519 => unreachable!(),
    }
}

/// "OPRFV1-" ‖ I2OSP(mode=0,1) ‖ "-" ‖ identifier
pub fn oprf_context_string(g: Grp) -> Vec<u8> {
    let mut v = b"OPRFV1-".to_vec();
    v.push(0);
    v.push(b'-');
    v.extend_from_slice(oprf_identifier(g));
    v
}

/// CredentialResponsePad: Expand(masking_key, masking_nonce ‖ "CredentialResponsePad", Npk+Nn+Nm)
pub fn credential_response_pad(h: HashAlg, masking_key: &[u8], masking_nonce: &[u8], len: usize) -> Vec<u8> {
    h.hkdf_expand(masking_key, &[masking_nonce, b"CredentialResponsePad"], len)
}

#[cfg(test)]
mod tests {
    use super::*;
    #[test]
    fn hmac_rfc4231_case2() {
        let m = HashAlg::Sha256.hmac(b"Jefe", &[b"what do ya want ", b"for nothing?"]);
        assert_eq!(hex::encode(m), "5bdcc146bf60754e6a042426089575c75a003f089d2739839dec58b964ec3843");
    }
    #[test]
    fn hkdf_rfc5869_case1() {
        let ikm = [0x0bu8; 22];
        let salt: Vec<u8> = (0u8..=0x0c).collect();
        let info: Vec<u8> = (0xf0u8..=0xf9).collect();
        let prk = HashAlg::Sha256.hkdf_extract(&salt, &[&ikm]);
        assert_eq!(hex::encode(&prk), "077709362c2e32df0ddc3f0dc47bba6390b6c73bb50f9c3122ec844ad7c2b3e5");
        let okm = HashAlg::Sha256.hkdf_expand(&prk, &[&info], 42);
        assert_eq!(hex::encode(okm), "3cb25f25faacd57a90434f64d0362f2a2d2d0a90cf1a5a4c5db02d56ecc4c5bf34007208d5b887185865");
    }
    #[test]
    fn xmd_rfc9380_k1() {
        // RFC 9380 K.1, SHA-256, DST "QUUX-V01-CS02-with-expander-SHA256-128", msg "", len 0x20
        let out = HashAlg::Sha256.expand_message_xmd(&[b""], b"QUUX-V01-CS02-with-expander-SHA256-128", 32);
        assert_eq!(hex::encode(out), "68a985b87eb6b46952128911f2a4412bbc302a9d759667f87f7a21d803f07235");
    }
}

// =====================================================================
// Group operations (dynamic over `Grp`); arithmetic, point decoding and the
// NIST hash-to-curve map come from the curve crates (trusted base).
// =====================================================================

pub mod grp {
    use super::HashAlg;
    use crate::suite::Grp;
    use curve25519_dalek::montgomery::MontgomeryPoint;
    use curve25519_dalek::ristretto::{CompressedRistretto, RistrettoPoint};
    use curve25519_dalek::scalar::Scalar as DScalar;
    use elliptic_curve::group::Curve as _;
    use elliptic_curve::hash2curve::{ExpandMsgXmd, FromOkm, GroupDigest};
    use elliptic_curve::sec1::{FromEncodedPoint, ModulusSize, ToEncodedPoint};
    use elliptic_curve::{AffinePoint, CurveArithmetic, Field, FieldBytes, FieldBytesSize, PrimeField, ProjectivePoint, PublicKey, Scalar};
    use generic_array::GenericArray;

    pub fn elem_len(g: Grp) -> usize {
        match g {
            Grp::Ristretto255 | Grp::Curve25519 => 32,
            Grp::P256 => 33,
            Grp::P384 => 49,
            Grp::P521 => 67,
        }
    }
    pub fn scalar_len(g: Grp) -> usize {
        match g {
            Grp::Ristretto255 | Grp::Curve25519 | Grp::P256 => 32,
            Grp::P384 => 48,
            Grp::P521 => 66,
        }
    }

    fn n_scalar<C: CurveArithmetic>(b: &[u8]) -> Option<Scalar<C>> {
        if b.len() != FieldBytes::<C>::default().len() {
            return None;
        }
        Option::from(Scalar::<C>::from_repr(FieldBytes::<C>::clone_from_slice(b)))
    }
    fn n_point<C>(b: &[u8]) -> Option<ProjectivePoint<C>>
    where
        C: CurveArithmetic,
        FieldBytesSize<C>: ModulusSize,
        AffinePoint<C>: FromEncodedPoint<C> + ToEncodedPoint<C>,
    {
        PublicKey::<C>::from_sec1_bytes(b).ok().map(|p| p.to_projective())
    }
    fn n_enc<C>(p: ProjectivePoint<C>) -> Vec<u8>
    where
        C: CurveArithmetic,
        FieldBytesSize<C>: ModulusSize,
        AffinePoint<C>: FromEncodedPoint<C> + ToEncodedPoint<C>,
    {
        p.to_affine().to_encoded_point(true).as_bytes().to_vec()
    }
    fn n_senc<C: CurveArithmetic>(s: Scalar<C>) -> Vec<u8> {
        s.to_repr().to_vec()
    }
    fn n_h2s<C>(h: HashAlg, msg: &[&[u8]], dst: &[u8]) -> Vec<u8>
    where
        C: CurveArithmetic,
        Scalar<C>: FromOkm,
    {
        let len = <<Scalar<C> as FromOkm>::Length as generic_array::typenum::Unsigned>::USIZE;
        let u = h.expand_message_xmd(msg, dst, len);
        n_senc::<C>(Scalar::<C>::from_okm(GenericArray::from_slice(&u)))
    }

    /// HashToScalar onto the scalar field of `g`, with expand_message_xmd over `h`
    pub fn hash_to_scalar(g: Grp, h: HashAlg, msg: &[&[u8]], dst: &[u8]) -> Vec<u8> {
        match g {
            Grp::Ristretto255 => {
                let u = h.expand_message_xmd(msg, dst, 64);
                let mut w = [0u8; 64];
                w.copy_from_slice(&u);
                DScalar::from_bytes_mod_order_wide(&w).to_bytes().to_vec()
            }
            Grp::P256 => n_h2s::<p256::NistP256>(h, msg, dst),
            Grp::P384 => n_h2s::<p384::NistP384>(h, msg, dst),
            Grp::P521 => n_h2s::<p521::NistP521>(h, msg, dst),
            Grp::Curve25519 => unreachable!("no HashToScalar on curve25519"),
        }
    }

    /// HashToGroup of the OPRF suite `g` (its own hash)
    pub fn hash_to_group(g: Grp, msg: &[&[u8]], dst: &[u8]) -> Vec<u8> {
        match g {
            Grp::Ristretto255 => {
                let u = HashAlg::Sha512.expand_message_xmd(msg, dst, 64);
                let mut w = [0u8; 64];
                w.copy_from_slice(&u);
                RistrettoPoint::from_uniform_bytes(&w).compress().to_bytes().to_vec()
            }
            Grp::P256 => n_enc::<p256::NistP256>(<p256::NistP256 as GroupDigest>::hash_from_bytes::<ExpandMsgXmd<sha2::Sha256>>(msg, &[dst]).expect("h2c")),
            Grp::P384 => n_enc::<p384::NistP384>(<p384::NistP384 as GroupDigest>::hash_from_bytes::<ExpandMsgXmd<sha2::Sha384>>(msg, &[dst]).expect("h2c")),
            Grp::P521 => n_enc::<p521::NistP521>(<p521::NistP521 as GroupDigest>::hash_from_bytes::<ExpandMsgXmd<sha2::Sha512>>(msg, &[dst]).expect("h2c")),
            Grp::Curve25519 => unreachable!(),
        }
    }

    /// scalar * element (for curve25519: X25519 with the clamped scalar)
    pub fn mul(g: Grp, elem: &[u8], scalar: &[u8]) -> Option<Vec<u8>> {
        match g {
            Grp::Ristretto255 => {
                let p = CompressedRistretto::from_slice(elem).ok()?.decompress()?;
                let s: Option<DScalar> = DScalar::from_canonical_bytes(scalar.try_into().ok()?).into();
                Some((p * s?).compress().to_bytes().to_vec())
            }
            Grp::P256 => Some(n_enc::<p256::NistP256>(n_point::<p256::NistP256>(elem)? * n_scalar::<p256::NistP256>(scalar)?)),
            Grp::P384 => Some(n_enc::<p384::NistP384>(n_point::<p384::NistP384>(elem)? * n_scalar::<p384::NistP384>(scalar)?)),
            Grp::P521 => Some(n_enc::<p521::NistP521>(n_point::<p521::NistP521>(elem)? * n_scalar::<p521::NistP521>(scalar)?)),
            Grp::Curve25519 => {
                let u: [u8; 32] = elem.try_into().ok()?;
                let k: [u8; 32] = scalar.try_into().ok()?;
                Some(MontgomeryPoint(u).mul_clamped(k).to_bytes().to_vec())
            }
        }
    }

    pub fn base_mul(g: Grp, scalar: &[u8]) -> Option<Vec<u8>> {
        match g {
            Grp::Ristretto255 => {
                let s: Option<DScalar> = DScalar::from_canonical_bytes(scalar.try_into().ok()?).into();
                Some((curve25519_dalek::constants::RISTRETTO_BASEPOINT_POINT * s?).compress().to_bytes().to_vec())
            }
            Grp::P256 => Some(n_enc::<p256::NistP256>(ProjectivePoint::<p256::NistP256>::generator() * n_scalar::<p256::NistP256>(scalar)?)),
            Grp::P384 => Some(n_enc::<p384::NistP384>(ProjectivePoint::<p384::NistP384>::generator() * n_scalar::<p384::NistP384>(scalar)?)),
            Grp::P521 => Some(n_enc::<p521::NistP521>(ProjectivePoint::<p521::NistP521>::generator() * n_scalar::<p521::NistP521>(scalar)?)),
            Grp::Curve25519 => {
                let k: [u8; 32] = scalar.try_into().ok()?;
                Some(MontgomeryPoint::mul_base_clamped(k).to_bytes().to_vec())
            }
        }
    }

    pub fn invert(g: Grp, scalar: &[u8]) -> Option<Vec<u8>> {
        match g {
            Grp::Ristretto255 => {
                let s: Option<DScalar> = DScalar::from_canonical_bytes(scalar.try_into().ok()?).into();
                let s = s?;
                if s == DScalar::ZERO {
                    return None;
                }
                Some(s.invert().to_bytes().to_vec())
            }
            Grp::P256 => Option::<_>::from(n_scalar::<p256::NistP256>(scalar)?.invert()).map(n_senc::<p256::NistP256>),
            Grp::P384 => Option::<_>::from(n_scalar::<p384::NistP384>(scalar)?.invert()).map(n_senc::<p384::NistP384>),
            Grp::P521 => Option::<_>::from(n_scalar::<p521::NistP521>(scalar)?.invert()).map(n_senc::<p521::NistP521>),
            Grp::Curve25519 => None,
        }
    }

    pub fn scalar_is_zero(scalar: &[u8]) -> bool {
        scalar.iter().all(|b| *b == 0)
    }
    use elliptic_curve::group::Group as _;
}

// =====================================================================
// RFC 9497 (OPRF mode 0) and RFC 9807 (OPAQUE-3DH), transcribed.
// =====================================================================

#[derive(Clone, Copy, Debug)]
pub struct SuiteB {
    pub oprf: Grp,
    pub ke: Grp,
}

pub struct EnvelopeOut {
    pub client_sk: Vec<u8>,
    pub client_pk: Vec<u8>,
    pub masking_key: Vec<u8>,
    pub auth_key: Vec<u8>,
    pub export_key: Vec<u8>,
    pub auth_tag: Vec<u8>,
}

pub struct KeOut {
    pub session_key: Vec<u8>,
    pub handshake_secret: Vec<u8>,
    pub km2: Vec<u8>,
    pub km3: Vec<u8>,
    pub server_mac: Vec<u8>,
    pub client_mac: Vec<u8>,
    pub hash_preamble_mac: Vec<u8>,
}

impl SuiteB {
    pub fn h(&self) -> HashAlg {
        oprf_hash(self.oprf)
    }
    pub fn nh(&self) -> usize {
        self.h().out_len()
    }
    pub fn noe(&self) -> usize {
        grp::elem_len(self.oprf)
    }
    pub fn nok(&self) -> usize {
        grp::scalar_len(self.oprf)
    }
    pub fn npk(&self) -> usize {
        grp::elem_len(self.ke)
    }
    pub fn nsk(&self) -> usize {
        grp::scalar_len(self.ke)
    }
    fn ctx(&self) -> Vec<u8> {
        oprf_context_string(self.oprf)
    }
    fn dst(&self, prefix: &[u8]) -> Vec<u8> {
        let mut d = prefix.to_vec();
        d.extend_from_slice(&self.ctx());
        d
    }

    // ---- RFC 9497
    /// Blind: blindedElement = blind * HashToGroup(input)
    pub fn blind(&self, input: &[u8], blind: &[u8]) -> Option<Vec<u8>> {
        let p = grp::hash_to_group(self.oprf, &[input], &self.dst(b"HashToGroup-"));
        grp::mul(self.oprf, &p, blind)
    }
    /// BlindEvaluate: evaluatedElement = skS * blindedElement
    pub fn blind_evaluate(&self, sk: &[u8], blinded: &[u8]) -> Option<Vec<u8>> {
        grp::mul(self.oprf, blinded, sk)
    }
    /// Finalize
    pub fn finalize(&self, input: &[u8], blind: &[u8], evaluated: &[u8]) -> Option<Vec<u8>> {
        let inv = grp::invert(self.oprf, blind)?;
        let n = grp::mul(self.oprf, evaluated, &inv)?;
        Some(self.h().hash(&[&i2osp(input.len(), 2), input, &i2osp(n.len(), 2), &n, b"Finalize"]))
    }
    /// DeriveKeyPair(seed, info) onto the scalar field of `g` (OPRF context string and hash)
    pub fn derive_key_pair(&self, g: Grp, seed: &[u8], info: &[u8]) -> Option<Vec<u8>> {
        let dst = self.dst(b"DeriveKeyPair");
        for counter in 0..=255usize {
            let sk = grp::hash_to_scalar(g, self.h(), &[seed, &i2osp(info.len(), 2), info, &i2osp(counter, 1)], &dst);
            if !grp::scalar_is_zero(&sk) {
                return Some(sk);
            }
        }
        None
    }

    // ---- RFC 9807
    pub fn oprf_key(&self, oprf_seed: &[u8], cred_id: &[u8]) -> Option<Vec<u8>> {
        let seed = self.h().hkdf_expand(oprf_seed, &[cred_id, b"OprfKey"], self.nok());
        self.derive_key_pair(self.oprf, &seed, b"OPAQUE-DeriveKeyPair")
    }
    /// DeriveDiffieHellmanKeyPair(seed) -> (sk, pk)
    pub fn derive_dh_keypair(&self, seed: &[u8]) -> Option<(Vec<u8>, Vec<u8>)> {
        let sk = match self.ke {
            Grp::Curve25519 => {
                // RFC 7748 clamping of the seed
                let mut k = seed.to_vec();
                if k.len() != 32 {
                    return None;
                }
                k[0] &= 248;
                k[31] &= 127;
                k[31] |= 64;
                k
            }
            g => self.derive_key_pair(g, seed, b"OPAQUE-DeriveDiffieHellmanKeyPair")?,
        };
        let pk = grp::base_mul(self.ke, &sk)?;
        Some((sk, pk))
    }
    pub fn dh(&self, sk: &[u8], pk: &[u8]) -> Option<Vec<u8>> {
        grp::mul(self.ke, pk, sk)
    }
    pub fn randomized_pwd(&self, oprf_output: &[u8], stretched: &[u8]) -> Vec<u8> {
        self.h().hkdf_extract(b"", &[oprf_output, stretched])
    }
    /// Store (envelope creation); `id_u`/`id_s` None = the party's public key
    pub fn envelope(&self, randomized_pwd: &[u8], nonce: &[u8], server_pk: &[u8], id_u: Option<&[u8]>, id_s: Option<&[u8]>) -> Option<EnvelopeOut> {
        let h = self.h();
        let nh = self.nh();
        let masking_key = h.hkdf_expand(randomized_pwd, &[b"MaskingKey"], nh);
        let auth_key = h.hkdf_expand(randomized_pwd, &[nonce, b"AuthKey"], nh);
        let export_key = h.hkdf_expand(randomized_pwd, &[nonce, b"ExportKey"], nh);
        let seed = h.hkdf_expand(randomized_pwd, &[nonce, b"PrivateKey"], self.nsk());
        let (client_sk, client_pk) = self.derive_dh_keypair(&seed)?;
        let id_u = id_u.unwrap_or(&client_pk).to_vec();
        let id_s = id_s.unwrap_or(server_pk).to_vec();
        let auth_tag = h.hmac(&auth_key, &[nonce, server_pk, &i2osp(id_s.len(), 2), &id_s, &i2osp(id_u.len(), 2), &id_u]);
        Some(EnvelopeOut { client_sk, client_pk, masking_key, auth_key, export_key, auth_tag })
    }
    pub fn masked_response(&self, masking_key: &[u8], masking_nonce: &[u8], server_pk: &[u8], envelope: &[u8]) -> Vec<u8> {
        let pad = credential_response_pad(self.h(), masking_key, masking_nonce, self.npk() + 32 + self.nh());
        pad.iter().zip(server_pk.iter().chain(envelope.iter())).map(|(a, b)| a ^ b).collect()
    }
    fn expand_label(&self, secret: &[u8], label: &[u8], context: &[u8]) -> Vec<u8> {
        let n = self.nh();
        let mut full = b"OPAQUE-".to_vec();
        full.extend_from_slice(label);
        self.h().hkdf_expand(secret, &[&i2osp(n, 2), &i2osp(full.len(), 1), &full, &i2osp(context.len(), 1), context], n)
    }
    pub fn preamble(&self, context: &[u8], id_u: &[u8], ke1: &[u8], id_s: &[u8], cred_response: &[u8], server_nonce: &[u8], server_e_pk: &[u8]) -> Vec<u8> {
        let mut p = b"OPAQUEv1-".to_vec();
        p.extend(i2osp(context.len(), 2));
        p.extend_from_slice(context);
        p.extend(i2osp(id_u.len(), 2));
        p.extend_from_slice(id_u);
        p.extend_from_slice(ke1);
        p.extend(i2osp(id_s.len(), 2));
        p.extend_from_slice(id_s);
        p.extend_from_slice(cred_response);
        p.extend_from_slice(server_nonce);
        p.extend_from_slice(server_e_pk);
        p
    }
    /// key schedule from the three DH values (already in RFC order) and the preamble
    pub fn key_schedule(&self, dh1: &[u8], dh2: &[u8], dh3: &[u8], preamble: &[u8]) -> KeOut {
        let h = self.h();
        let prk = h.hkdf_extract(b"", &[dh1, dh2, dh3]);
        let hp = h.hash(&[preamble]);
        let handshake_secret = self.expand_label(&prk, b"HandshakeSecret", &hp);
        let session_key = self.expand_label(&prk, b"SessionKey", &hp);
        let km2 = self.expand_label(&handshake_secret, b"ServerMAC", b"");
        let km3 = self.expand_label(&handshake_secret, b"ClientMAC", b"");
        let server_mac = h.hmac(&km2, &[&hp]);
        let hpm = h.hash(&[preamble, &server_mac]);
        let client_mac = h.hmac(&km3, &[&hpm]);
        KeOut { session_key, handshake_secret, km2, km3, server_mac, client_mac, hash_preamble_mac: hpm }
    }
}

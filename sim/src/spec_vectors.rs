//! Model B is believed only after it reproduces the RFC 9807 test vectors
//! (6 real + 3 fake; ristretto255, ristretto255+curve25519, P-256).

use std::collections::BTreeMap;

use crate::spec::SuiteB;
use crate::suite::Grp;

pub struct Vector {
    pub name: String,
    pub fake: bool,
    pub kv: BTreeMap<String, String>,
}

pub fn parse(text: &str) -> Vec<Vector> {
    let mut out: Vec<Vector> = vec![];
    let mut last_key: Option<String> = None;
    for line in text.lines() {
        let l = line.trim_end();
        if let Some(n) = l.strip_prefix("### ") {
            out.push(Vector { name: n.to_string(), fake: n.contains("Fake"), kv: BTreeMap::new() });
            last_key = None;
            continue;
        }
        let Some(cur) = out.last_mut() else { continue };
        if l.starts_with('#') || l.starts_with('~') || l.is_empty() {
            last_key = None;
            continue;
        }
        if let Some((k, v)) = l.split_once(": ") {
            if !k.contains(' ') {
                cur.kv.insert(k.to_string(), v.trim().to_string());
                last_key = Some(k.to_string());
                continue;
            }
        }
        if let Some(k) = &last_key {
            cur.kv.get_mut(k).unwrap().push_str(l.trim());
        }
    }
    out.retain(|v| v.kv.contains_key("OPRF"));
    out
}

fn hx(v: &Vector, k: &str) -> Option<Vec<u8>> {
    v.kv.get(k).map(|s| hex::decode(s).unwrap_or_else(|e| panic!("vector {}: bad hex in {k}: {e}", v.name)))
}

fn suite_of(v: &Vector) -> SuiteB {
    let oprf = match v.kv["OPRF"].as_str() {
        "ristretto255-SHA512" => Grp::Ristretto255,
        "P256-SHA256" => Grp::P256,
        x => panic!("unknown OPRF {x}"),
    };
    let ke = match v.kv["Group"].as_str() {
        "ristretto255" => Grp::Ristretto255,
        "curve25519" => Grp::Curve25519,
        x if x.starts_with("P256") => Grp::P256,
        x => panic!("unknown group {x}"),
    };
    SuiteB { oprf, ke }
}

fn eq(name: &str, vec: &Vector, key: &str, got: &[u8], errs: &mut Vec<String>) {
    match hx(vec, key) {
        Some(exp) if exp == got => {}
        Some(exp) => errs.push(format!("{}: {key} ({name}): model {} != RFC {}", vec.name, hex::encode(got), hex::encode(exp))),
        None => {}
    }
}

pub fn check_vector(v: &Vector) -> Vec<String> {
    let mut errs = vec![];
    let b = suite_of(v);
    let ctx = hx(v, "Context").unwrap_or_default();
    let id_u = hx(v, "client_identity");
    let id_s = hx(v, "server_identity");
    let oprf_seed = hx(v, "oprf_seed").unwrap();
    let cred = hx(v, "credential_identifier").unwrap();
    let server_sk = hx(v, "server_private_key").unwrap();
    let server_pk = hx(v, "server_public_key").unwrap();
    let k = b.oprf_key(&oprf_seed, &cred).expect("oprf key");
    eq("oprf key", v, "oprf_key", &k, &mut errs);
    eq("server pk from sk", v, "server_public_key", &crate::spec::grp::base_mul(b.ke, &server_sk).unwrap(), &mut errs);
    let masking_nonce = hx(v, "masking_nonce").unwrap();
    let server_nonce = hx(v, "server_nonce").unwrap();
    let (esk_s, epk_s) = b.derive_dh_keypair(&hx(v, "server_keyshare_seed").unwrap()).unwrap();
    let (ke1, client_pk, masking_key, envelope, client_side): (Vec<u8>, Vec<u8>, Vec<u8>, Vec<u8>, Option<(Vec<u8>, Vec<u8>, Vec<u8>)>) = if v.fake {
        let ke1 = hx(v, "KE1").unwrap();
        (ke1, hx(v, "client_public_key").unwrap(), hx(v, "masking_key").unwrap(), vec![0u8; 32 + b.nh()], None)
    } else {
        let pw = hx(v, "password").unwrap();
        let r_reg = hx(v, "blind_registration").unwrap();
        let req = b.blind(&pw, &r_reg).unwrap();
        eq("registration request", v, "registration_request", &req, &mut errs);
        let z = b.blind_evaluate(&k, &req).unwrap();
        let mut resp = z.clone();
        resp.extend_from_slice(&server_pk);
        eq("registration response", v, "registration_response", &resp, &mut errs);
        let y = b.finalize(&pw, &r_reg, &z).unwrap();
        let rwd = b.randomized_pwd(&y, &y);
        eq("randomized password", v, "randomized_password", &rwd, &mut errs);
        let n_e = hx(v, "envelope_nonce").unwrap();
        let env = b.envelope(&rwd, &n_e, &server_pk, id_u.as_deref(), id_s.as_deref()).unwrap();
        eq("client public key", v, "client_public_key", &env.client_pk, &mut errs);
        eq("auth key", v, "auth_key", &env.auth_key, &mut errs);
        eq("export key", v, "export_key", &env.export_key, &mut errs);
        let mut envelope = n_e.clone();
        envelope.extend_from_slice(&env.auth_tag);
        eq("envelope", v, "envelope", &envelope, &mut errs);
        let mut upload = env.client_pk.clone();
        upload.extend_from_slice(&env.masking_key);
        upload.extend_from_slice(&envelope);
        eq("registration upload", v, "registration_upload", &upload, &mut errs);
        let r_login = hx(v, "blind_login").unwrap();
        let (esk_c, epk_c) = b.derive_dh_keypair(&hx(v, "client_keyshare_seed").unwrap()).unwrap();
        let mut ke1 = b.blind(&pw, &r_login).unwrap();
        ke1.extend_from_slice(&hx(v, "client_nonce").unwrap());
        ke1.extend_from_slice(&epk_c);
        eq("KE1", v, "KE1", &ke1, &mut errs);
        (ke1, env.client_pk.clone(), env.masking_key.clone(), envelope, Some((esk_c, env.client_sk.clone(), epk_c)))
    };
    // server side of login
    let blinded = &ke1[..b.noe()];
    let epk_c = &ke1[b.noe() + 32..];
    let z = b.blind_evaluate(&k, blinded).unwrap();
    let mut cred_resp = z;
    cred_resp.extend_from_slice(&masking_nonce);
    cred_resp.extend(b.masked_response(&masking_key, &masking_nonce, &server_pk, &envelope));
    let eff_u = id_u.clone().unwrap_or_else(|| client_pk.clone());
    let eff_s = id_s.clone().unwrap_or_else(|| server_pk.clone());
    let pre = b.preamble(&ctx, &eff_u, &ke1, &eff_s, &cred_resp, &server_nonce, &epk_s);
    let dh1 = b.dh(&esk_s, epk_c).unwrap();
    let dh2 = b.dh(&server_sk, epk_c).unwrap();
    let dh3 = b.dh(&esk_s, &client_pk).unwrap();
    let ks = b.key_schedule(&dh1, &dh2, &dh3, &pre);
    let mut ke2 = cred_resp.clone();
    ke2.extend_from_slice(&server_nonce);
    ke2.extend_from_slice(&epk_s);
    ke2.extend_from_slice(&ks.server_mac);
    eq("KE2", v, "KE2", &ke2, &mut errs);
    if !v.fake {
        eq("handshake secret", v, "handshake_secret", &ks.handshake_secret, &mut errs);
        eq("server mac key", v, "server_mac_key", &ks.km2, &mut errs);
        eq("client mac key", v, "client_mac_key", &ks.km3, &mut errs);
        eq("KE3", v, "KE3", &ks.client_mac, &mut errs);
        eq("session key", v, "session_key", &ks.session_key, &mut errs);
        // the client's view of the three DH values must agree
        if let Some((esk_c, sk_c, _)) = client_side {
            let c1 = b.dh(&esk_c, &epk_s).unwrap();
            let c2 = b.dh(&esk_c, &server_pk).unwrap();
            let c3 = b.dh(&sk_c, &epk_s).unwrap();
            if (c1, c2, c3) != (dh1, dh2, dh3) {
                errs.push(format!("{}: client and server DH triples differ in the model", v.name));
            }
        }
    }
    errs
}

/// Ok(number of vectors reproduced) or the list of mismatches
pub fn check_all(verif_dir: &std::path::Path) -> Result<usize, Vec<String>> {
    let p = verif_dir.join("spec/vectors.txt");
    let text = std::fs::read_to_string(&p).map_err(|e| vec![format!("cannot read {}: {e}", p.display())])?;
    let vs = parse(&text);
    let mut errs = vec![];
    for v in &vs {
        errs.extend(check_vector(v));
    }
    if vs.len() != 9 {
        errs.push(format!("expected 9 vectors, parsed {}", vs.len()));
    }
    if errs.is_empty() {
        Ok(vs.len())
    } else {
        Err(errs)
    }
}

//! C13 — persisted state survives save / restart unchanged.
//! Crash-point enumeration: every subset of the five persistence points x
//! {no reload, native, bincode, JSON} (4^5 = 1024 schedules), plus a setup
//! reload before one server operation only, plus chains of permanent reloads.
//! Label-derived tapes make the randomness identical, so the complete event
//! log of the crashing run must equal the uninterrupted one byte for byte.

use serde_json::json;

use crate::driver::{fnv, par_map, Case, Ctx, Found, Report};
use crate::gen::*;
use crate::rng::Gen;
use crate::suite::{Codec, SuiteOps, ALL_CODECS, SIM_SUITES};
use crate::world::{run_world, Op, Ref, RunResult, Stats, Violation, WIds, World};

pub const OWN: &[&str] = &["reload_divergence", "reload_changed_state", "reload_failed"];

pub fn base_world(seed: u64, idx: u64, s: &dyn SuiteOps, hsm: bool) -> World {
    let mut g = Gen::new(seed, &format!("gen/c13/{}/{}", s.name(), idx));
    let mut b = WB::new(s, seed, idx, "c13 base run");
    // an externally-held key enters through `ServerSetup::new_with_key` (the way a
    // deployment creates such a setup); a directly-held one through `ServerSetup::new`
    let setup = if hsm {
        let s0 = b.setup(false);
        let out = b.id();
        let tape = b.tape("setup-with-key");
        b.push(Op::NewSetupWithKey { out, tape, sk_from: s0 });
        out
    } else {
        b.setup(false)
    };
    let pw = small_pw(&mut g);
    let cred = small_cred(&mut g);
    let ksf = gen_ksf(&mut g, s.ksf_family(), true);
    let ids = if g.chance(1, 2) { WIds::default() } else { WIds { client: crate::world::IdSpec::Bytes(b"u".to_vec().into()), server: crate::world::IdSpec::Absent } };
    let (r, ops) = b.reg_ops(&mut g, setup, &pw, &pw, &cred, ids.clone(), ksf.clone(), false);
    for o in ops {
        b.push(o);
    }
    let ctx = if g.chance(1, 2) { Some(b"c13".to_vec()) } else { None };
    let mut threads = vec![];
    let (_, ops) = b.login_ops(&mut g, setup, Some(r.record), &pw, &pw, &cred, ctx.clone(), ctx.clone(), ids.clone(), ids.clone(), ksf.clone(), false);
    threads.push(ops);
    // an unknown user: exercises the fake key pair that only the setup stores
    let (_, mut ops) = b.login_ops(&mut g, setup, None, &pw, &pw, b"nobody", ctx.clone(), ctx.clone(), ids.clone(), ids.clone(), ksf.clone(), false);
    ops.pop();
    threads.push(ops);
    let (_, ops) = b.login_ops(&mut g, setup, Some(r.record), &pw, &pw, &cred, None, None, ids.clone(), ids.clone(), ksf.clone(), false);
    threads.push(ops);
    // a second user registering and logging in while the first one is active
    let pw2 = small_pw(&mut g);
    let (r2, mut ops) = b.reg_ops(&mut g, setup, &pw2, &pw2, b"second-user", WIds::default(), ksf.clone(), false);
    let (_, lops) = b.login_ops(&mut g, setup, Some(r2.record), &pw2, &pw2, b"second-user", ctx.clone(), ctx.clone(), WIds::default(), WIds::default(), ksf.clone(), false);
    ops.extend(lops);
    threads.push(ops);
    b.interleave(&mut g, threads);
    // an externally held key may serialize to an opaque handle rather than the scalar
    if hsm && (crate::driver::fnv(s.name().as_bytes()) + idx) % 2 == 0 {
        b.w.knobs.hsm_handle = true;
    }
    b.w
}

/// persistence point of a reference inside an op, if it is one
fn point(op: &Op, which: &str) -> Option<usize> {
    match (op, which) {
        (Op::RegRespond { .. }, "setup") | (Op::LoginRespond { .. }, "setup") => Some(0),
        (Op::LoginRespond { .. }, "record") => Some(1),
        (Op::RegFinish { .. }, "st") => Some(2),
        (Op::LoginFinish { .. }, "st") => Some(3),
        (Op::ServerFinish { .. }, "st") => Some(4),
        _ => None,
    }
}

fn set_via(r: &mut Ref, c: Codec) {
    if let Ref::Item { via, .. } = r {
        *via = c
    }
}

/// `only_server_op`: Some(k) = the setup is reloaded only before the k-th server operation
pub fn apply(base: &World, sched: [Codec; 5], only_server_op: Option<usize>) -> World {
    let mut w = base.clone();
    let mut server_ops = 0;
    for op in w.ops.iter_mut() {
        let is_server = matches!(op, Op::RegRespond { .. } | Op::LoginRespond { .. });
        let setup_codec = match only_server_op {
            Some(k) if is_server && server_ops != k => Codec::Mem,
            _ => sched[0],
        };
        if is_server {
            server_ops += 1;
        }
        let p = |o: &Op, n: &str| point(o, n);
        match op {
            Op::RegRespond { setup, .. } => set_via(setup, setup_codec),
            Op::LoginRespond { setup, record, .. } => {
                set_via(setup, setup_codec);
                if let Some(r) = record {
                    set_via(r, sched[1]);
                }
            }
            Op::RegFinish { st, .. } => set_via(st, sched[2]),
            Op::LoginFinish { st, .. } => set_via(st, sched[3]),
            Op::ServerFinish { st, .. } => set_via(st, sched[4]),
            _ => {}
        }
        let _ = p;
    }
    w.note = format!("c13 schedule {:?} only_server_op={:?}", sched, only_server_op);
    w
}

/// permanent reloads: after each op that produced a persistable item, the
/// holder crashes and restarts from the store (codec chosen per item, chained)
pub fn with_reload_ops(base: &World, g: &mut Gen) -> World {
    let mut w = base.clone();
    let mut ops = vec![];
    let mut setup_id = None;
    for op in base.ops.iter() {
        ops.push(op.clone());
        match op {
            Op::NewSetup { out, .. } | Op::NewSetupWithKey { out, .. } => {
                setup_id = Some(*out);
                ops.push(Op::Reload { id: *out, codec: *g.pick(&ALL_CODECS[1..]) });
            }
            Op::RegStart { st, .. } | Op::LoginStart { st, .. } | Op::LoginRespond { st, .. } => {
                if g.chance(2, 3) {
                    ops.push(Op::Reload { id: *st, codec: *g.pick(&ALL_CODECS[1..]) });
                }
                if let (Op::LoginRespond { .. }, Some(s)) = (op, setup_id) {
                    // the server restarts again after serving
                    ops.push(Op::Reload { id: s, codec: *g.pick(&ALL_CODECS[1..]) });
                }
            }
            Op::RegStore { out, .. } => {
                ops.push(Op::Reload { id: *out, codec: *g.pick(&ALL_CODECS[1..]) });
                ops.push(Op::Reload { id: *out, codec: *g.pick(&ALL_CODECS[1..]) });
            }
            _ => {}
        }
    }
    w.ops = ops;
    w.note = "c13 chained permanent reloads".into();
    w
}

pub fn baseline_of(w: &World) -> World {
    let mut b = w.clone();
    b.ops.retain(|o| !matches!(o, Op::Reload { .. }));
    for op in b.ops.iter_mut() {
        match op {
            Op::RegRespond { setup, req, .. } => {
                set_via(setup, Codec::Mem);
                set_via(req, Codec::Mem)
            }
            Op::RegFinish { st, resp, .. } => {
                set_via(st, Codec::Mem);
                set_via(resp, Codec::Mem)
            }
            Op::RegStore { upload, .. } => set_via(upload, Codec::Mem),
            Op::LoginRespond { setup, record, req, .. } => {
                set_via(setup, Codec::Mem);
                set_via(req, Codec::Mem);
                if let Some(r) = record {
                    set_via(r, Codec::Mem)
                }
            }
            Op::LoginFinish { st, resp, .. } => {
                set_via(st, Codec::Mem);
                set_via(resp, Codec::Mem)
            }
            Op::ServerFinish { st, fin } => {
                set_via(st, Codec::Mem);
                set_via(fin, Codec::Mem)
            }
            _ => {}
        }
    }
    b
}

/// compare a crashing run with the uninterrupted one
pub fn compare(w: &World, r: &RunResult, base: &RunResult) -> Vec<Violation> {
    let mut v: Vec<Violation> = r
        .violations
        .iter()
        .filter(|x| x.clause == "reload_changed_state")
        .cloned()
        .collect();
    let evs: Vec<_> = r.events.iter().filter(|e| e.name != "Reload").collect();
    for e in r.events.iter().filter(|e| e.name == "Reload") {
        if let Err(f) = &e.res {
            v.push(Violation { clause: "reload_failed", op: e.op, detail: format!("a saved state could not be reloaded: {}", f.short()) });
        }
    }
    if evs.len() != base.events.len() {
        v.push(Violation { clause: "reload_divergence", op: 0, detail: "event logs differ in length".into() });
        return v;
    }
    for (e, b) in evs.iter().zip(base.events.iter()) {
        if e.res != b.res || e.skipped != b.skipped {
            let what = match (&e.res, &b.res) {
                (Ok(x), Ok(y)) => x
                    .iter()
                    .zip(y.iter())
                    .find(|(a, c)| a != c)
                    .map(|(a, _)| format!("output `{}` differs", a.0))
                    .unwrap_or_else(|| "outputs differ".into()),
                (Err(f), Ok(_)) => format!("fails with {} where the uninterrupted run succeeds", f.short()),
                (Ok(_), Err(f)) => format!("succeeds where the uninterrupted run fails with {}", f.short()),
                (Err(f), Err(g)) => format!("fails with {} instead of {}", f.short(), g.short()),
            };
            v.push(Violation {
                clause: "reload_divergence",
                op: e.op,
                detail: format!("{} (op {}): {} [{}]", e.name, e.op, what, w.note),
            });
            break;
        }
    }
    v
}

pub fn judge_world(w: &World) -> Vec<Violation> {
    let base = run_world(&baseline_of(w));
    let r = run_world(w);
    compare(w, &r, &base)
}

pub fn run(ctx: &Ctx) -> Report {
    let mut rep = Report::new(
        "per base world (setup, registration, a real login, an unknown-user login, a second real login; interleaved; label-derived tapes): all 4^5 = 1024 assignments of {none, native, bincode, JSON} to the five persistence points (server setup before every server operation, password file, client registration state, client login state, server login state) — complete on 4 suites in quick (64 seeded schedules on the other 16), complete on all 20 in thorough — plus setup reload before the k-th server operation only (k x 3 codecs), 8 worlds of chained permanent Reload ops, and seeded random-walk workloads with random crash/reload ops and codec deliveries compared with the same walk without them; direct and SimHsm-held server keys. Oracle: the complete event log (all messages, results, keys, states) equals the uninterrupted run's. distinct = (suite, schedule) pairs that actually reloaded something",
    );
    rep.exhaustive = Some(true);
    let suites: Vec<&'static dyn SuiteOps> = SIM_SUITES.to_vec();
    let full: Vec<usize> = if ctx.quick() { vec![0, 4, 6, 5] } else { (0..20).collect() };
    // all schedules
    let mut scheds: Vec<[Codec; 5]> = vec![];
    for n in 0..1024usize {
        let c = |k: usize| ALL_CODECS[(n >> (2 * k)) & 3];
        scheds.push([c(0), c(1), c(2), c(3), c(4)]);
    }
    struct Job {
        si: usize,
        widx: u64,
        hsm: bool,
        lo: usize,
        hi: usize,
        sampled: bool,
    }
    let mut jobs = vec![];
    let worlds_per = ctx.pick(1, 3);
    for si in 0..suites.len() {
        for widx in 0..worlds_per {
            let hsm = widx % 2 == 1 || (ctx.quick() && si % 5 == 3);
            if full.contains(&si) {
                for lo in (0..1024).step_by(64) {
                    jobs.push(Job { si, widx: widx as u64, hsm, lo, hi: lo + 64, sampled: false });
                }
            } else {
                jobs.push(Job { si, widx: widx as u64, hsm, lo: 0, hi: 64, sampled: true });
            }
        }
    }
    struct Out {
        evals: u64,
        shapes: Vec<u64>,
        found: Vec<Found>,
        stats: Stats,
        steps: u64,
        sample: Option<serde_json::Value>,
    }
    let seed = ctx.seed;
    let outs = par_map(jobs.len(), ctx.threads, |ji| {
        let j = &jobs[ji];
        let s = suites[j.si];
        let base_w = base_world(seed, j.widx, s, j.hsm);
        let base_r = run_world(&base_w);
        let mut o = Out { evals: 0, shapes: vec![], found: vec![], stats: Stats::default(), steps: 0, sample: None };
        let mut g = Gen::new(seed, &format!("sched/c13/{}/{}", s.name(), j.widx));
        let mut variants: Vec<World> = vec![];
        if j.sampled {
            for _ in 0..(j.hi - j.lo) {
                variants.push(apply(&base_w, scheds[g.below(1024)], None));
            }
        } else {
            for n in j.lo..j.hi {
                variants.push(apply(&base_w, scheds[n], None));
            }
        }
        if j.lo == 0 {
            let nserver = base_w.ops.iter().filter(|o| matches!(o, Op::RegRespond { .. } | Op::LoginRespond { .. })).count();
            for k in 0..nserver {
                for c in &ALL_CODECS[1..] {
                    variants.push(apply(&base_w, [*c, Codec::Mem, Codec::Mem, Codec::Mem, Codec::Mem], Some(k)));
                }
            }
            for _ in 0..8 {
                variants.push(with_reload_ops(&base_w, &mut g));
            }
        }
        for w in variants {
            let r = run_world(&w);
            o.evals += 1;
            o.steps += r.events.len() as u64;
            o.stats.merge(&r.stats);
            o.shapes.push(fnv(format!("{}|{}", w.suite, w.note).as_bytes()));
            let vs = compare(&w, &r, &base_r);
            for v in vs {
                let opname = w.ops.get(v.op).map(|o| o.name()).unwrap_or("?");
                let sig = format!("{}:{}:{}", v.clause, opname, w.suite);
                if !o.found.iter().any(|f| f.signature == sig) {
                    o.found.push(Found { clause: v.clause.into(), detail: v.detail.clone(), signature: sig, case: Case::World(w.clone()) });
                }
            }
            if o.sample.is_none() {
                o.sample = Some(json!({"suite": w.suite, "schedule": w.note, "ops": w.ops.iter().map(|o| o.name()).collect::<Vec<_>>()}));
            }
        }
        o
    });
    for o in outs {
        rep.evaluations += o.evals;
        rep.worlds += o.evals;
        rep.steps += o.steps;
        for s in o.shapes {
            rep.shapes.insert(s);
        }
        rep.stats.merge(&o.stats);
        for f in o.found {
            if rep.found.iter().filter(|x| x.clause == f.clause).count() < 4 {
                rep.add_found(f);
            }
        }
        if let Some(s) = o.sample {
            rep.sample(s);
        }
    }
    // crash points inside unstructured workloads: seeded random walks (several users,
    // re-registrations, concurrent logins, deviations) with random crash/reload ops and
    // codec deliveries, compared with the same walk run without any of them
    let per_walk = ctx.pick(6, 200);
    let wjobs: Vec<(usize, u64)> = (0..suites.len()).flat_map(|si| (0..per_walk).map(move |k| (si, k as u64))).collect();
    let wouts = par_map(wjobs.len(), ctx.threads, |i| {
        let (si, k) = wjobs[i];
        let w = crate::checks::c07::gen_chaos(seed, 1_000 + k, suites[si], 60 + (k as usize % 4) * 20);
        let base = run_world(&baseline_of(&w));
        let r = run_world(&w);
        let vs = compare(&w, &r, &base);
        (w, vs, r.events.len() as u64, r.stats)
    });
    for (w, vs, steps, stats) in wouts {
        rep.evaluations += 1;
        rep.worlds += 1;
        rep.steps += steps;
        rep.stats.merge(&stats);
        rep.shapes.insert(fnv(format!("{}|walk|{}", w.suite, w.index).as_bytes()));
        for v in vs {
            let opname = w.ops.get(v.op).map(|o| o.name()).unwrap_or("?");
            let sig = format!("{}:{}:{}:walk", v.clause, opname, w.suite);
            if rep.found.iter().filter(|x| x.clause == v.clause).count() < 4 {
                rep.add_found(Found { clause: v.clause.into(), detail: v.detail.clone(), signature: sig, case: Case::World(w.clone()) });
            }
        }
    }
    for s in &suites {
        rep.suites.insert(s.name().into());
    }
    rep
}

//! C17 — deterministic in the supplied randomness; every random value fresh.

use std::collections::BTreeMap;

use serde_json::json;

use crate::driver::{fnv, par_map, Case, Ctx, Found, Report};
use crate::gen::*;
use crate::hexs::Hex;
use crate::layout::fields;
use crate::rng::Gen;
use crate::suite::{Kind, SuiteOps, ID_SUITES, SIM_SUITES};
use crate::world::{run_world, Op, RunResult, Stats, Tape, Violation, WIds, World};

pub const OWN: &[&str] = &[
    "nondeterministic",
    "random_value_repeats",
    "random_values_coincide",
    "tape_prefix_violation",
    "fake_masking_key_not_fresh",
    "random_values_share_randomness",
    "rng_error_swallowed",
];

pub fn base_world(seed: u64, idx: u64, s: &dyn SuiteOps) -> World {
    let mut g = Gen::new(seed, &format!("gen/c17/{}", s.name())); // same parameters for every index: only tapes differ
    let mut b = WB::new(s, seed, idx, "c17 base");
    let setup = b.setup(false);
    // a second setup holding the SAME static key behind the external-key seam, on its own tape
    let setup2 = b.id();
    let t = b.tape("setup-with-key");
    b.push(Op::NewSetupWithKey { out: setup2, tape: t, sk_from: setup });
    let pw = small_pw(&mut g);
    let cred = small_cred(&mut g);
    let ksf = gen_ksf(&mut g, s.ksf_family(), true);
    let (r, ops) = b.reg_ops(&mut g, setup, &pw, &pw, &cred, WIds::default(), ksf.clone(), false);
    for o in ops {
        b.push(o);
    }
    let (_, ops) = b.login_ops(&mut g, setup, Some(r.record), &pw, &pw, &cred, None, None, WIds::default(), WIds::default(), ksf.clone(), false);
    for o in ops {
        b.push(o);
    }
    let (_, mut ops) = b.login_ops(&mut g, setup, None, &pw, &pw, &cred, None, None, WIds::default(), WIds::default(), ksf.clone(), false);
    ops.pop();
    for o in ops {
        b.push(o);
    }
    let (_, mut ops) = b.login_ops(&mut g, setup2, None, &pw, &pw, b"other", None, None, WIds::default(), WIds::default(), ksf, false);
    ops.truncate(2);
    for o in ops {
        b.push(o);
    }
    b.w
}

/// the values that are meant to be random, by role, per op
pub fn roles(s: &dyn SuiteOps, w: &World, r: &RunResult) -> Vec<(usize, String, Vec<u8>)> {
    let l = s.lens();
    let mut out = vec![];
    for (i, (op, e)) in w.ops.iter().zip(r.events.iter()).enumerate() {
        let Ok(outs) = &e.res else { continue };
        let get = |n: &str| outs.iter().find(|(x, _)| *x == n).map(|(_, h)| h.0.clone());
        let mut take = |kind: Kind, bytes: Option<Vec<u8>>, names: &[&str]| {
            if let Some(b) = bytes {
                for f in fields(kind, &l) {
                    if names.contains(&f.name) && f.off + f.len <= b.len() {
                        out.push((i, format!("{}.{}", op.name(), f.name), b[f.off..f.off + f.len].to_vec()));
                    }
                }
            }
        };
        match op {
            Op::NewSetup { .. } | Op::NewSetupWithKey { .. } => {
                let names: &[&str] = if matches!(op, Op::NewSetup { .. }) { &["oprf_seed", "server_sk", "fake_sk"] } else { &["oprf_seed", "fake_sk"] };
                take(Kind::Setup, get("setup"), names)
            }
            Op::RegStart { .. } => take(Kind::ClientReg, get("state"), &["blind", "blinded_element"]),
            Op::RegFinish { .. } => take(Kind::RegUpload, get("upload"), &["envelope_nonce"]),
            Op::LoginStart { .. } => take(Kind::ClientLogin, get("state"), &["blind", "blinded_element", "client_nonce_msg", "client_e_pk", "client_e_sk"]),
            Op::LoginRespond { record, .. } => {
                let names: &[&str] = if record.is_none() { &["masking_nonce", "masked_response", "server_nonce", "server_e_pk"] } else { &["masking_nonce", "server_nonce", "server_e_pk"] };
                take(Kind::CredResp, get("msg"), names)
            }
            _ => {}
        }
    }
    out
}

fn set_tape(op: &mut Op, t: Tape) {
    match op {
        Op::NewSetup { tape, .. } | Op::NewSetupWithKey { tape, .. } | Op::RegStart { tape, .. } | Op::RegFinish { tape, .. } | Op::LoginStart { tape, .. } | Op::LoginRespond { tape, .. } => *tape = t,
        _ => {}
    }
}

fn tape_label(op: &Op) -> Option<String> {
    match op {
        Op::NewSetup { tape, .. } | Op::NewSetupWithKey { tape, .. } | Op::RegStart { tape, .. } | Op::RegFinish { tape, .. } | Op::LoginStart { tape, .. } | Op::LoginRespond { tape, .. } => match tape {
            Tape::Own(l) => Some(l.clone()),
            _ => None,
        },
        _ => None,
    }
}

pub struct Verdicts {
    pub v: Vec<(Violation, World)>,
    pub evals: u64,
    pub steps: u64,
    pub stats: Stats,
    pub shapes: Vec<u64>,
    pub probes: BTreeMap<&'static str, u64>,
}

pub fn examine(seed: u64, idx: u64, s: &dyn SuiteOps, byte_cuts: usize) -> Verdicts {
    let mut out = Verdicts { v: vec![], evals: 0, steps: 0, stats: Stats::default(), shapes: vec![], probes: BTreeMap::new() };
    let w = base_world(seed, idx, s);
    // (0) immediate repetition: the world up to and including each randomised op, executed twice
    // in a row on the same tapes (for the first op of its kind nothing of that kind sits between
    // its two executions). State the library keeps between calls shows up here, and — unlike a
    // difference that depends on what else this process, or another worker thread, did before —
    // it reproduces from the replay file in a fresh process
    for (i, op) in w.ops.iter().enumerate() {
        if tape_label(op).is_none() {
            continue;
        }
        let mut wi = w.clone();
        wi.ops.truncate(i + 1);
        let (ra, rb) = (run_world(&wi), run_world(&wi));
        out.evals += 2;
        if let (Some(a), Some(b)) = (ra.events.get(i), rb.events.get(i)) {
            if a.res != b.res {
                wi.note = format!("c17 immediate repetition of op {i}");
                out.v.push((Violation { clause: "nondeterministic", op: i, detail: format!("{} executed twice in a row on the same tape gives two different results: the library keeps state between calls", op.name()) }, wi));
                return out;
            }
        }
    }
    let r = run_world(&w);
    out.evals += 1;
    out.steps += r.events.len() as u64;
    out.stats.merge(&r.stats);
    // (i) equal tapes => identical outputs and states
    let r2 = run_world(&w);
    out.evals += 1;
    if crate::world::log_hash(&r) != crate::world::log_hash(&r2) {
        let at = r.events.iter().zip(r2.events.iter()).position(|(a, b)| a.res != b.res).unwrap_or(0);
        out.v.push((Violation { clause: "nondeterministic", op: at, detail: format!("two runs of the same world on identical tapes differ first at op {at} ({}): a hidden entropy source or hidden state", w.ops[at].name()) }, w.clone()));
    }
    out.shapes.push(fnv(format!("{}|det", s.name()).as_bytes()));
    // (ii) independent tapes: another world index => every random value differs; none coincide within a run
    let w_b = {
        let mut x = base_world(seed, idx + 1_000_000, s);
        x.note = "c17 base (independent tapes)".into();
        x
    };
    let r_b = run_world(&w_b);
    out.evals += 1;
    let ra = roles(s, &w, &r);
    let rb = roles(s, &w_b, &r_b);
    if ra.len() != rb.len() || ra.is_empty() {
        out.v.push((Violation { clause: "nondeterministic", op: 0, detail: "the same op list produced a different set of outputs on other tapes".into() }, w.clone()));
    }
    for ((i, role, a), (_, _, b)) in ra.iter().zip(rb.iter()) {
        if a == b {
            out.v.push((Violation { clause: "random_value_repeats", op: *i, detail: format!("{role} is the same on two independent tapes: {}", hex::encode(a)) }, w.clone()));
            break;
        }
    }
    let mut seen: BTreeMap<&[u8], &str> = BTreeMap::new();
    for (i, role, a) in ra.iter() {
        if let Some(r0) = seen.get(a.as_slice()) {
            out.v.push((Violation { clause: "random_values_coincide", op: *i, detail: format!("{role} coincides with {r0} within one run: {}", hex::encode(a)) }, w.clone()));
            break;
        }
        seen.insert(a, role);
    }
    out.shapes.push(fnv(format!("{}|fresh", s.name()).as_bytes()));
    // (iii) prefix sweeps, per randomised op
    for (i, op) in w.ops.iter().enumerate() {
        let Some(label) = tape_label(op) else { continue };
        let draws: Vec<Vec<u8>> = r.events[i].draws.iter().map(|d| d.0.clone()).collect();
        if draws.is_empty() {
            continue;
        }
        let mine: Vec<(String, Vec<u8>)> = ra.iter().filter(|x| x.0 == i).map(|x| (x.1.clone(), x.2.clone())).collect();
        let mut prev_equal: Option<Vec<bool>> = None;
        // cut positions in BYTES: every draw boundary plus seeded cuts inside draws
        let flat: Vec<u8> = draws.iter().flatten().copied().collect();
        let mut cuts: Vec<usize> = vec![0];
        let mut acc = 0;
        for d in &draws {
            acc += d.len();
            cuts.push(acc);
        }
        let mut gc = Gen::new(seed, &format!("c17/cuts/{}/{}/{}", s.name(), idx, i));
        for _ in 0..byte_cuts {
            cuts.push(gc.below(flat.len() + 1));
        }
        cuts.sort();
        cuts.dedup();
        let ncuts = cuts.len();
        for (kk, cut) in cuts.iter().enumerate() {
            let k = kk;
            let prefix: Vec<u8> = flat[..*cut].to_vec();
            let mut wk = w.clone();
            set_tape(&mut wk.ops[i], Tape::Scripted(format!("{label}/alt"), Hex(prefix)));
            wk.ops.truncate(i + 1); // only this op's own outputs are examined
            wk.note = format!("c17 op {i} ({}) tape = first {cut} of {} bytes ({} draws) then fresh", op.name(), flat.len(), draws.len());
            let rk = run_world(&wk);
            out.evals += 1;
            out.steps += rk.events.len() as u64;
            let rolk: Vec<(String, Vec<u8>)> = roles(s, &wk, &rk).into_iter().filter(|x| x.0 == i).map(|x| (x.1, x.2)).collect();
            if rolk.len() != mine.len() {
                out.v.push((Violation { clause: "tape_prefix_violation", op: i, detail: format!("{}: the op fails or changes shape when only the tape changes ({})", op.name(), wk.note) }, wk.clone()));
                break;
            }
            let eq: Vec<bool> = mine.iter().zip(rolk.iter()).map(|(a, b)| a.1 == b.1).collect();
            out.shapes.push(fnv(format!("{}|{}|{}|{:?}", s.name(), op.name(), k, eq).as_bytes()));
            if k == 0 && eq.iter().any(|x| *x) {
                let j = eq.iter().position(|x| *x).unwrap();
                out.v.push((Violation { clause: "random_value_repeats", op: i, detail: format!("{} does not depend on the tape: unchanged on a completely fresh tape: {}", mine[j].0, hex::encode(&mine[j].1)) }, wk.clone()));
                break;
            }
            if k + 1 == ncuts && eq.iter().any(|x| !*x) {
                let j = eq.iter().position(|x| !*x).unwrap();
                out.v.push((Violation { clause: "nondeterministic", op: i, detail: format!("{} differs although the whole tape was replayed: hidden entropy", mine[j].0) }, wk.clone()));
                break;
            }
            if let Some(p) = &prev_equal {
                if p.iter().zip(eq.iter()).any(|(a, b)| *a && !*b) {
                    let j = p.iter().zip(eq.iter()).position(|(a, b)| *a && !*b).unwrap();
                    out.v.push((Violation { clause: "tape_prefix_violation", op: i, detail: format!("{} was reproduced with a shorter replayed prefix but changes when {} bytes are replayed", mine[j].0, cut) }, wk.clone()));
                    break;
                }
                if p == &eq {
                    *out.probes.entry("draw_changed_no_role_value").or_insert(0) += 1;
                }
            }
            prev_equal = Some(eq);
        }
        // (vi) independence of the random values of one call: replacing a single draw,
        // for every pair of values that are meant to be independently random there must be
        // a draw that moves the one and not the other, in both directions
        {
            let pairs: &[(&str, &str)] = match op {
                Op::NewSetup { .. } => &[("oprf_seed", "server_sk"), ("oprf_seed", "fake_sk"), ("server_sk", "fake_sk")],
                Op::NewSetupWithKey { .. } => &[("oprf_seed", "fake_sk")],
                Op::LoginStart { .. } => &[("blind", "client_nonce_msg"), ("blind", "client_e_sk"), ("client_nonce_msg", "client_e_sk")],
                Op::LoginRespond { .. } => &[("masking_nonce", "server_nonce"), ("masking_nonce", "server_e_pk"), ("server_nonce", "server_e_pk")],
                _ => &[],
            };
            if !pairs.is_empty() {
                let mut moved: Vec<Vec<bool>> = vec![];
                // rejection sampling (P-521 scalars) can make hundreds of draws, all but the last
                // few discarded: perturb the last 10 draws only
                let first = draws.len().saturating_sub(10);
                for j in first..draws.len() {
                    let mut tape: Vec<u8> = vec![];
                    for (q, d) in draws.iter().enumerate() {
                        if q == j {
                            // perturb, do not redraw: one bit in the middle of the draw, so that a
                            // rejection-sampling loop accepts/rejects the same draws and the
                            // following draws keep their position on the tape
                            let mut x = d.clone();
                            if !x.is_empty() {
                                let mid = x.len() / 2;
                                x[mid] ^= 0x10;
                            }
                            tape.extend(x);
                        } else {
                            tape.extend_from_slice(d);
                        }
                    }
                    let mut wj = w.clone();
                    set_tape(&mut wj.ops[i], Tape::Scripted(format!("{label}/alt3"), Hex(tape)));
                    wj.ops.truncate(i + 1);
                    let rj = run_world(&wj);
                    out.evals += 1;
                    let rolj: Vec<(String, Vec<u8>)> = roles(s, &wj, &rj).into_iter().filter(|x| x.0 == i).map(|x| (x.1, x.2)).collect();
                    if rolj.len() == mine.len() {
                        moved.push(mine.iter().zip(rolj.iter()).map(|(a, b)| a.1 != b.1).collect());
                    }
                }
                let idx_of = |n: &str| mine.iter().position(|x| x.0.ends_with(&format!(".{n}")));
                for (a, b2) in pairs {
                    let (Some(ia), Some(ib)) = (idx_of(a), idx_of(b2)) else { continue };
                    let a_alone = moved.iter().any(|m| m[ia] && !m[ib]);
                    let b_alone = moved.iter().any(|m| m[ib] && !m[ia]);
                    if !moved.is_empty() && !(a_alone && b_alone) {
                        let mut wj = w.clone();
                        wj.note = format!("c17 independence of {a} and {b2} in op {i}");
                        out.v.push((Violation { clause: "random_values_share_randomness", op: i, detail: format!("{}: no single draw moves {} without moving {} (or vice versa): the two values are not independently random", op.name(), if a_alone { b2 } else { a }, if a_alone { a } else { b2 }) }, wj));
                        break;
                    }
                }
            }
        }
        // (iv) the hidden fake masking key: some single draw must move masked_response and nothing else random
        if let Op::LoginRespond { record: None, .. } = op {
            let idx_of = |n: &str| mine.iter().position(|x| x.0.ends_with(n));
            let (Some(mr), Some(mn)) = (idx_of("masked_response"), idx_of("masking_nonce")) else { continue };
            let mut found = false;
            let mut key_bytes = 0usize; // bytes of tape that feed the stand-in masking key and nothing else visible
            for j in 0..draws.len() {
                let mut tape: Vec<u8> = vec![];
                for (q, d) in draws.iter().enumerate() {
                    if q == j {
                        let mut gg = Gen::new(seed, &format!("c17/repl/{}/{}/{}/{}", s.name(), idx, i, j));
                        tape.extend(gg.bytes(d.len()));
                    } else {
                        tape.extend_from_slice(d);
                    }
                }
                let mut wj = w.clone();
                set_tape(&mut wj.ops[i], Tape::Scripted(format!("{label}/alt2"), Hex(tape)));
                wj.ops.truncate(i + 1);
                let rj = run_world(&wj);
                out.evals += 1;
                let rolj: Vec<(String, Vec<u8>)> = roles(s, &wj, &rj).into_iter().filter(|x| x.0 == i).map(|x| (x.1, x.2)).collect();
                if rolj.len() != mine.len() {
                    continue;
                }
                let changed: Vec<bool> = mine.iter().zip(rolj.iter()).map(|(a, b)| a.1 != b.1).collect();
                if changed[mr] && !changed[mn] {
                    found = true;
                    key_bytes += draws[j].len();
                }
            }
            let nh = s.lens().nh;
            if found && key_bytes < nh {
                let mut wj = w.clone();
                wj.note = format!("c17 fake masking key entropy on op {i}");
                out.v.push((Violation { clause: "fake_masking_key_not_fresh", op: i, detail: format!("only {key_bytes} bytes of the tape feed the {nh}-byte stand-in masking key of the no-record login") }, wj));
            }
            if !found {
                let mut wj = w.clone();
                wj.note = format!("c17 fake masking key differential on op {i}");
                out.v.push((Violation { clause: "fake_masking_key_not_fresh", op: i, detail: "no draw of the no-record login moves the masked response without moving the masking nonce: the fake masking key is not drawn from the tape".into() }, wj));
            }
        }
    }
    // (v) a generator whose try_fill_bytes reports errors: an op may fail, but may not succeed with other output
    let mut wf = w.clone();
    wf.knobs.rng_try_fill_fails = true;
    wf.note = "c17 generator reports errors from try_fill_bytes".into();
    let rf = run_world(&wf);
    out.evals += 1;
    for (i, (a, b)) in r.events.iter().zip(rf.events.iter()).enumerate() {
        match (&a.res, &b.res) {
            (Ok(x), Ok(y)) if x != y => {
                out.v.push((Violation { clause: "rng_error_swallowed", op: i, detail: format!("{}: with a generator whose try_fill_bytes errors the op still succeeds but its output differs — an RNG error was ignored and a value left unrandomised", a.name) }, wf.clone()));
                break;
            }
            (Ok(_), Err(_)) => {
                *out.probes.entry("op_failed_cleanly_under_rng_errors").or_insert(0) += 1;
            }
            _ => {}
        }
    }
    out
}

/// replay: re-derive the verdicts for the world's (seed, index, suite) and
/// report the ones of the same clause
pub fn replay_random_sk(params: &serde_json::Value) -> Option<String> {
    let s = crate::suite::suite_by_name(params["suite"].as_str()?)?;
    let t1 = hex::decode(params["t1"].as_str()?).ok()?;
    let t2 = hex::decode(params["t2"].as_str()?).ok()?;
    let (a, a2, b) = (s.key_api(6, &t1).ok()?, s.key_api(6, &t1).ok()?, s.key_api(6, &t2).ok()?);
    if a != a2 {
        Some("KeGroup::random_sk gives two different keys on the same tape".into())
    } else if a == b {
        Some("KeGroup::random_sk gives the same key on two independent tapes".into())
    } else {
        None
    }
}

pub fn judge_world(w: &World) -> Vec<Violation> {
    let s = crate::suite::suite_by_name(&w.suite).unwrap();
    let idx = if w.index >= 1_000_000 { w.index - 1_000_000 } else { w.index };
    examine(w.seed, idx, s, 12).v.into_iter().map(|x| x.0).collect()
}

pub fn run(ctx: &Ctx) -> Report {
    let mut rep = Report::new(
        "per (suite, world index): a world with two setups (the second through new_with_key with the SAME static key on its own tape), registration, real login, two no-record logins; (0) every randomised op executed twice back to back on the same tape: identical results; (i) run twice on equal tapes: identical logs; (ii) run on independent tapes: every role value (OPRF seed, server/fake secret key, blind, blinded element, envelope nonce, client nonce, client ephemeral key pair, masking nonce, server nonce, server ephemeral key, fake masked response) differs between runs and no two coincide within a run; (iii) for every randomised op, every draw boundary and seeded byte offsets inside draws: tape = first n recorded bytes then fresh — nothing may stay fixed at k=0, everything must be reproduced at k=m, and the set of reproduced values grows monotonically; (iv) for no-record logins some single replaced draw must move the masked response and nothing else (the hidden fake masking key is drawn, not derived); (v) with a generator whose try_fill_bytes reports errors no op may succeed with different output; (vi) for every pair of values of one call that are meant to be independently random (seed / server key / fake key; blind / client nonce / ephemeral key; masking nonce / server nonce / server ephemeral key) some single perturbed draw (one bit flipped in its middle, so that rejection-sampling loops keep their alignment) moves each without the other. (vii) KeGroup::random_sk, the stand-alone key sampler: equal on equal tapes, different on independent ones. distinct = (suite, op, k, pattern of reproduced values)",
    );
    let mut suites: Vec<&'static dyn SuiteOps> = SIM_SUITES.to_vec();
    suites.extend(ID_SUITES.iter().step_by(ctx.pick(5, 1)));
    let per = ctx.pick(2, 60);
    let mut jobs = vec![];
    for si in 0..suites.len() {
        for k in 0..per {
            jobs.push((si, k as u64));
        }
    }
    let seed = ctx.seed;
    let byte_cuts = ctx.pick(3, 12);
    let outs = par_map(jobs.len(), ctx.threads, |ji| examine(seed, jobs[ji].1, suites[jobs[ji].0], byte_cuts));
    for o in outs {
        rep.evaluations += o.evals;
        rep.worlds += o.evals;
        rep.steps += o.steps;
        rep.stats.merge(&o.stats);
        for s in o.shapes {
            rep.shapes.insert(s);
        }
        for (k, v) in o.probes {
            *rep.stats.probes.entry(k).or_insert(0) += v;
        }
        for (v, w) in o.v {
            let opname = w.ops.get(v.op).map(|x| x.name()).unwrap_or("?");
            rep.add_found(Found { clause: v.clause.into(), detail: v.detail.clone(), signature: format!("{}:{}:{}", v.clause, opname, w.suite), case: Case::World(w) });
        }
    }
    // the stand-alone key sampler (`KeGroup::random_sk`, the documented source of the key for
    // `ServerSetup::new_with_key`): a function of its tape, and fresh on independent tapes
    for s in &suites {
        let mut g = Gen::new(seed, &format!("gen/c17/random_sk/{}", s.name()));
        let (t1, t2) = (g.bytes(192), g.bytes(192));
        let (a, a2, b) = (s.key_api(6, &t1), s.key_api(6, &t1), s.key_api(6, &t2));
        rep.evaluations += 3;
        let bad = match (&a, &a2, &b) {
            (Ok(x), Ok(y), _) if x != y => Some(("nondeterministic", "KeGroup::random_sk gives two different keys on the same tape".to_string())),
            (Ok(x), _, Ok(z)) if x == z => Some(("random_value_repeats", format!("KeGroup::random_sk gives the same key on two independent tapes: {}", hex::encode(x)))),
            _ => None,
        };
        if let Some((clause, detail)) = bad {
            rep.add_found(Found { clause: clause.into(), detail: format!("{}: {detail}", s.name()), signature: format!("{clause}:random_sk:{}", s.name()), case: Case::Custom { mode: "random_sk".into(), params: json!({"suite": s.name(), "t1": hex::encode(&t1), "t2": hex::encode(&t2)}) } });
        }
    }
    rep.found.truncate(6);
    for s in &suites {
        rep.suites.insert(s.name().into());
    }
    let w0 = base_world(seed, 0, suites[0]);
    rep.sample(json!({"suite": w0.suite, "ops": w0.ops.iter().map(|o| o.name()).collect::<Vec<_>>(), "example_prefix_world": "op i tape = Scripted(first k draws) then fresh stream"}));
    rep.stats.faults.insert("tape_prefix_replay", rep.evaluations);
    rep.assumptions.push("unpredictability is tested as tape-dependence and non-repetition; abusive (constant) generators are out of scope".into());
    rep
}

//! C11 — invalid group elements and scalars are never accepted.
//! Every catalogue entry (identity, off-curve, out-of-range, bad tag,
//! non-canonical/negative/non-square ristretto, small-order Curve25519, zero /
//! out-of-range / unclamped scalars) is substituted into EVERY element/scalar
//! field of every message and state, all other fields valid, and decoded
//! natively, through bincode and through JSON. Oracle: decode => Err.

use serde_json::json;

use crate::catalog;
use crate::checks::c10::grp_of;
use crate::checks::harvest::harvest;
use crate::driver::{fnv, par_map, Case, Ctx, Found, Report};
use crate::hexs::Hex;
use crate::layout::{fields, FieldTy};
use crate::suite::{Codec, Kind, SuiteOps, BYTE_CODECS, NATIVE_DECODERS, SIM_SUITES};

fn find_sub(h: &[u8], n: &[u8]) -> Option<usize> {
    h.windows(n.len()).position(|w| w == n)
}

fn json_frag(b: &[u8]) -> String {
    b.iter().map(|x| x.to_string()).collect::<Vec<_>>().join(",")
}

/// plant `bad` in place of the valid field bytes `good` inside an encoding
pub fn plant(codec: Codec, enc: &[u8], good: &[u8], bad: &[u8]) -> Option<Vec<u8>> {
    match codec {
        Codec::Native | Codec::Mem | Codec::Bincode => {
            let at = find_sub(enc, good)?;
            let mut v = enc.to_vec();
            v[at..at + good.len()].copy_from_slice(bad);
            Some(v)
        }
        Codec::Json => {
            let text = String::from_utf8(enc.to_vec()).ok()?;
            let g = format!("[{}]", json_frag(good));
            if !text.contains(&g) {
                return None;
            }
            Some(text.replacen(&g, &format!("[{}]", json_frag(bad)), 1).into_bytes())
        }
    }
}

struct JobOut {
    evals: u64,
    shapes: Vec<u64>,
    found: Vec<Found>,
    unlocatable: u64,
    sample: Option<serde_json::Value>,
    fired: std::collections::BTreeMap<String, u64>,
}

fn job(ctx: &Ctx, s: &dyn SuiteOps, kind: Kind) -> JobOut {
    let h = harvest(s, ctx.seed, 0, false);
    let lens = s.lens();
    let mut out = JobOut { evals: 0, shapes: vec![], found: vec![], unlocatable: 0, sample: None, fired: Default::default() };
    let Some(valids) = h.by_kind.get(&kind) else { return out };
    let v = &valids[0];
    let Ok(item) = s.decode(kind, Codec::Native, v) else { return out };
    for f in fields(kind, &lens) {
        let Some(grp) = grp_of(s, f.ty) else { continue };
        let cat = catalog::load(&ctx.verif_dir, grp);
        let entries = if matches!(f.ty, FieldTy::OprfElem | FieldTy::KePk) { &cat.elems } else { &cat.scalars };
        let good = &v[f.off..f.off + f.len];
        for codec in BYTE_CODECS {
            let Ok(enc) = s.encode(&item, codec) else { continue };
            for e in entries {
                let bad = hex::decode(&e.hex).expect("catalogue hex");
                if bad.len() != f.len || e.cl == "valid_extreme" {
                    continue;
                }
                let Some(planted) = plant(codec, &enc, good, &bad) else {
                    out.unlocatable += 1;
                    continue;
                };
                out.evals += 1;
                *out.fired.entry(e.cl.clone()).or_insert(0) += 1;
                let r = s.decode(kind, codec, &planted);
                out.shapes.push(fnv(format!("{:?}|{:?}|{:?}|{}|{:?}|{}", grp, f.ty, kind, e.cl, codec, r.is_ok()).as_bytes()));
                if r.is_ok() {
                    let sig = format!("accepts:{}:{:?}:{:?}:{}", e.cl, f.ty, grp, e.name);
                    if !out.found.iter().any(|x| x.signature == sig) {
                        out.found.push(Found {
                            clause: "invalid_encoding_accepted".into(),
                            detail: format!("{}: {:?} via {:?} accepted field {} := {} ({} / {})", s.name(), kind, codec, f.name, e.hex, e.cl, e.name),
                            signature: sig,
                            case: Case::Decode { suite: s.name().into(), kind, codec, bytes: Hex(planted), expect: "reject".into(), note: format!("{}:{}:{}", f.name, e.cl, e.name) },
                        });
                    }
                }
            }
        }
        if out.sample.is_none() {
            out.sample = Some(json!({"suite": s.name(), "decoder": format!("{kind:?}"), "field": f.name, "group": format!("{grp:?}"), "entries": entries.iter().take(4).map(|e| format!("{}={}", e.name, e.hex)).collect::<Vec<_>>()}));
        }
    }
    out
}

pub fn run(ctx: &Ctx) -> Report {
    let mut rep = Report::new(
        "catalogue (generated independently with Python big integers, /verif/spec/invalid/*.json) x every group-element and scalar field of the 11 message/state encodings x {native, bincode, JSON}, all other fields valid, on all 20 suites; oracle: decode returns Err. distinct = (group, field type, decoder, invalid class, codec, outcome)",
    );
    rep.exhaustive = Some(true);
    let suites: Vec<&'static dyn SuiteOps> = SIM_SUITES.to_vec();
    let mut jobs = vec![];
    for si in 0..suites.len() {
        for k in NATIVE_DECODERS {
            jobs.push((si, k));
        }
    }
    let outs = par_map(jobs.len(), ctx.threads, |i| job(ctx, suites[jobs[i].0], jobs[i].1));
    let mut unloc = 0;
    let mut fired: std::collections::BTreeMap<String, u64> = Default::default();
    for o in outs {
        rep.evaluations += o.evals;
        unloc += o.unlocatable;
        for s in o.shapes {
            rep.shapes.insert(s);
        }
        for f in o.found {
            rep.add_found(f);
        }
        if let Some(s) = o.sample {
            rep.sample(s);
        }
        for (k, v) in o.fired {
            *fired.entry(k).or_insert(0) += v;
        }
    }
    for s in &suites {
        rep.suites.insert(s.name().into());
    }
    rep.worlds = jobs.len() as u64;
    rep.extra.insert("invalid_classes_planted".into(), json!(fired));
    rep.extra.insert("fields_not_locatable_in_serde_encoding".into(), json!(unloc));
    rep
}

pub fn replay_decode(suite: &str, kind: Kind, codec: Codec, bytes: &[u8]) -> Option<String> {
    let s = crate::suite::suite_by_name(suite)?;
    if s.decode(kind, codec, bytes).is_ok() {
        Some("decoder accepted an encoding that contains an invalid element/scalar".into())
    } else {
        None
    }
}

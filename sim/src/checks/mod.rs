//! One module per property. Shared: the world-batch runner.

use serde_json::json;

use crate::driver::{digest, par_map, shrink_world, Case, Ctx, Found, Report};
use crate::world::{run_world, RunResult, Violation, World};

pub mod c01;
pub mod c02;
pub mod c03;
pub mod c04;
pub mod c05;
pub mod c06;
pub mod c07;
pub mod c08;
pub mod c09;
pub mod c10;
pub mod c11;
pub mod c12;
pub mod c13;
pub mod c14;
pub mod c15;
pub mod c18;
pub mod harvest;
pub mod c16;
pub mod c17;

pub fn run_check(id: &str, ctx: &Ctx) -> Option<Report> {
    Some(match id {
        "C01" => c01::run(ctx),
        "C02" => c02::run(ctx),
        "C03" => c03::run(ctx),
        "C04" => c04::run(ctx),
        "C05" => c05::run(ctx),
        "C06" => c06::run(ctx),
        "C07" => c07::run(ctx),
        "C08" => c08::run(ctx),
        "C09" => c09::run(ctx),
        "C10" => c10::run(ctx),
        "C11" => c11::run(ctx),
        "C12" => c12::run(ctx),
        "C13" => c13::run(ctx),
        "C14" => c14::run(ctx),
        "C15" => c15::run(ctx),
        "C18" => c18::run(ctx),
        "C16" => c16::run(ctx),
        "C17" => c17::run(ctx),
        _ => return None,
    })
}

/// property-specific judges over the recorded history (used by replay too)
pub fn extra_judge(id: &str) -> Option<fn(&World, &RunResult) -> Vec<Violation>> {
    match id {
        "C07" => Some(c07::judge),
        "C08" => Some(c08::judge),
        "C09" => Some(c09::judge),
        "C12" => Some(c12::size_judge),
        "C14" => Some(c14::judge),
        "C15" => Some(c15::judge),
        "C16" => Some(c16::judge),
        _ => None,
    }
}

/// clauses of Model A / the executor that a property's check owns
pub fn own_clauses(id: &str) -> &'static [&'static str] {
    match id {
        "C01" => c01::OWN,
        "C02" => c02::OWN,
        "C03" => c03::OWN,
        "C04" => c04::OWN,
        "C05" => c05::OWN,
        "C06" => c06::OWN,
        "C07" => c07::OWN,
        "C08" => c08::OWN,
        "C09" => c09::OWN,
        "C12" => c12::OWN,
        "C13" => c13::OWN,
        "C14" => c14::OWN,
        "C15" => c15::OWN,
        "C18" => c18::OWN,
        "C16" => c16::OWN,
        "C17" => c17::OWN,
        _ => &[],
    }
}

pub struct WorldOut {
    pub world: World,
    pub result: RunResult,
}

/// Generate and run `n` worlds on the pool; fold coverage; collect violations
/// of the check's own clauses (others are cross-property notes).
pub fn world_batch(
    ctx: &Ctx,
    rep: &mut Report,
    n: usize,
    gen: &(dyn Fn(usize) -> World + Sync),
    own: &[&str],
    force_nontrivial: bool,
    extra_judge: Option<&(dyn Fn(&World, &RunResult) -> Vec<Violation> + Sync)>,
) {
    struct Out {
        world: Option<World>,
        viol: Vec<Violation>,
        fold: Box<dyn FnOnce(&mut Report) + Send>,
    }
    let outs = par_map(n, ctx.threads, |i| {
        let w = gen(i);
        let mut r = run_world(&w);
        if let Some(j) = extra_judge {
            let more = j(&w, &r);
            r.violations.extend(more);
        }
        let viol = r.violations.clone();
        let keep = !viol.is_empty() || i < 3;
        let wc = w.clone();
        let d = digest(&w, &r);
        let steps = r.events.len() as u64;
        let evals = r.events.iter().filter(|e| !e.skipped && e.predict != "-").count() as u64;
        let stats = r.stats.clone();
        let suite = w.suite.clone();
        Out {
            world: if keep { Some(wc) } else { None },
            viol,
            fold: Box::new(move |rep: &mut Report| {
                rep.worlds += 1;
                rep.steps += steps;
                rep.evaluations += evals;
                if d.nontrivial || force_nontrivial {
                    rep.shapes.insert(d.shape);
                }
                rep.interleavings.insert(d.interleaving);
                for s in d.states {
                    rep.states.insert(s);
                }
                rep.suites.insert(suite);
                rep.stats.merge(&stats);
            }),
        }
    });
    for (i, o) in outs.into_iter().enumerate() {
        (o.fold)(rep);
        if i < 3 {
            if let Some(w) = &o.world {
                let detail: Vec<String> = w.ops.iter().take(10).map(|o| {
                    let mut t = serde_json::to_string(o).unwrap_or_default();
                    if t.len() > 220 {
                        t.truncate(220);
                        t.push('…');
                    }
                    t
                }).collect();
                rep.sample(json!({"world": i, "suite": w.suite, "note": w.note, "n_ops": w.ops.len(), "op_sequence": w.ops.iter().take(60).map(|o| o.name()).collect::<Vec<_>>(), "first_ops_in_full": detail, "faults": w.faults, "knobs": w.knobs}));
            }
        }
        let mut done = std::collections::BTreeSet::new();
        for v in &o.viol {
            if !own.contains(&v.clause) {
                rep.cross(v.clause);
                continue;
            }
            if !done.insert(v.clause) || rep.found.iter().filter(|f| f.clause == v.clause).count() >= 3 {
                continue;
            }
            let w = o.world.as_ref().expect("violating world kept");
            let judge = |cand: &World| -> Vec<Violation> {
                let mut r = run_world(cand);
                if let Some(j) = extra_judge {
                    let more = j(cand, &r);
                    r.violations.extend(more);
                }
                r.violations
            };
            let small = shrink_world(w, v.clause, &judge);
            let vs = judge(&small);
            let v2 = vs.iter().find(|x| x.clause == v.clause).unwrap_or(v);
            let opname = small.ops.get(v2.op).map(|o| o.name()).unwrap_or("end");
            rep.add_found(Found {
                clause: v.clause.to_string(),
                detail: v2.detail.clone(),
                signature: format!("{}:{}:{}", v.clause, opname, suite_family(&small.suite)),
                case: Case::World(small),
            });
        }
    }
}

fn suite_family(s: &str) -> String {
    s.to_string()
}

/// Determinism self-test: a digest over the complete event logs of a fixed
/// sample of worlds from every generator. Must not depend on the process, the
/// worker count or the run.
pub fn selftest_digest(seed: u64, threads: usize, per: usize) -> (String, usize) {
    use crate::suite::{SuiteOps, SIM_SUITES};
    use sha2::{Digest, Sha256};
    let suites: Vec<&'static dyn SuiteOps> = SIM_SUITES.to_vec();
    let mut jobs: Vec<(usize, usize, u64)> = vec![];
    for si in 0..suites.len() {
        for g in 0..14 {
            for k in 0..per {
                jobs.push((si, g, k as u64));
            }
        }
    }
    let hashes = par_map(jobs.len(), threads, |i| {
        let (si, g, k) = jobs[i];
        let s = suites[si];
        let w = match g {
            0 => c01::gen_world(seed, k, s, k as usize),
            1 => c02::gen_world(seed, k, s, k as usize, 8),
            2 => c03::gen_world(seed, k, s, 0),
            3 => c04::gen_world(seed, k, s, 0, 4, false),
            4 => c05::gen_world(seed, k, s, k as usize),
            5 => c06::gen_world(seed, k, s),
            6 => c07::gen_world(seed, k, s, k % 2 == 0, Some(8)).world,
            7 => c08::gen_world(seed, k, s),
            8 => c09::gen_world(seed, k, s, k as usize),
            9 => c14::gen_world(seed, k, s),
            10 => c15::gen_world(seed, k, s, k as usize, false),
            11 => c16::gen_world(seed, k, s),
            12 => c13::base_world(seed, k, s, k % 2 == 1),
            _ => c17::base_world(seed, k, s),
        };
        let mut r = run_world(&w);
        for id in ["C07", "C08", "C09", "C14", "C15", "C16"] {
            if let Some(j) = extra_judge(id) {
                if (id == "C07" && g == 6) || (id == "C08" && g == 7) || (id == "C09" && g == 8) || (id == "C14" && g == 9) || (id == "C15" && g == 10) || (id == "C16" && g == 11) {
                    let more = j(&w, &r);
                    r.violations.extend(more);
                }
            }
        }
        let mut h = Sha256::new();
        h.update(serde_json::to_vec(&w).unwrap());
        h.update(crate::world::log_hash(&r));
        let d: [u8; 32] = h.finalize().into();
        d
    });
    let mut h = Sha256::new();
    for d in &hashes {
        h.update(d);
    }
    (hex::encode(h.finalize()), hashes.len())
}

/// Replay a case under a property's oracle. Returns the violations seen.
pub fn replay_world(w: &World, own: &[&str]) -> Vec<Violation> {
    run_world(w)
        .violations
        .into_iter()
        .filter(|v| own.contains(&v.clause))
        .collect()
}

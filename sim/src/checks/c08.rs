//! C08 — unregistered users are indistinguishable from registered ones.
//! Histories interleaving fake attempts (record `None`) with real logins.

use std::collections::BTreeMap;

use crate::driver::{Ctx, Report};
use crate::gen::*;
use crate::layout::fields;
use crate::rng::Gen;
use crate::spec::{credential_response_pad, oprf_hash};
use crate::suite::{suite_by_name, Kind, SuiteOps, ID_SUITES, SIM_SUITES};
use crate::world::{Op, Ref, RunResult, Violation, WIds, World};

pub const OWN: &[&str] = &[
    "fake_structure",
    "fake_evaluation_differs",
    "fake_field_repeats",
    "fake_masking_key_predictable",
    "fake_keypair_not_fresh",
    "client_errkind",
    "client_accept_unexpected",
    "server_accept_unexpected",
    "server_errkind",
];

pub fn gen_world(seed: u64, idx: u64, s: &dyn SuiteOps) -> World {
    let mut g = Gen::new(seed, &format!("gen/c08/{}/{}", s.name(), idx));
    let mut b = WB::new(s, seed, idx, "c08 fake and real attempts interleaved");
    let fam = s.ksf_family();
    let setup = b.setup(g.chance(1, 3));
    // a second server created with the SAME static key on its own tape: the stand-in
    // key pair used for unregistered users must not be a function of the static key
    let setup_twin = b.id();
    let t = b.tape("setup-with-key");
    b.push(Op::NewSetupWithKey { out: setup_twin, tape: t, sk_from: setup });
    let pw = small_pw(&mut g);
    let cred_a = small_cred(&mut g);
    // the unregistered identifier: short, or far beyond any length prefix (identifiers are
    // HKDF info, any length is legal — and must be answered exactly like a registered one)
    let mut cred_x = match idx % 4 {
        1 => g.bytes(65536),
        3 => g.bytes(70000),
        _ => small_cred(&mut g),
    };
    if cred_x == cred_a {
        cred_x.push(7);
    }
    let ksf = gen_ksf(&mut g, fam, true);
    let k = g.below(5); // default, default, explicit empty, explicit 5 bytes, explicit 255 bytes
    let lid = gen_logical_id(&mut g, k);
    let ids = match &lid {
        LogicalId::Default => WIds::default(),
        LogicalId::Bytes(x) => WIds { client: crate::world::IdSpec::Bytes(x.clone().into()), server: crate::world::IdSpec::Absent },
    };
    let ctx = if g.chance(1, 2) { Some(b"c08".to_vec()) } else { None };
    let (r, ops) = b.reg_ops(&mut g, setup, &pw, &pw, &cred_a, ids.clone(), ksf.clone(), false);
    for o in ops {
        b.push(o);
    }
    let nh = s.lens().nh;
    let mut threads: Vec<Vec<Op>> = vec![];
    let mut fin_pool: Vec<u32> = vec![];
    // real logins
    for _ in 0..2 {
        let (l, mut ops) = b.login_ops(&mut g, setup, Some(r.record), &pw, &pw, &cred_a, ctx.clone(), ctx.clone(), ids.clone(), ids.clone(), ksf.clone(), false);
        fin_pool.push(l.fin);
        // the registered user's request is replayed to the server: the second answer must be as
        // fresh as two answers to an unregistered user are
        let (st2, m2) = (b.id(), b.id());
        let t2 = b.tape("loginrespond");
        ops.push(Op::LoginRespond { st: st2, msg: m2, tape: t2, setup: Ref::mem(setup), record: Some(Ref::mem(r.record)), req: Ref::mem(l.req), cred: cred_a.clone().into(), ctx: ctx.clone().map(Into::into), ids: ids.clone() });
        threads.push(ops);
    }
    // fake attempts: unregistered id, registered id with no record, repeated
    let mut fake_states = vec![];
    for cred in [&cred_x, &cred_x, &cred_a, &cred_x] {
        let (l, mut ops) = b.login_ops(&mut g, setup, None, &pw, &pw, cred, ctx.clone(), ctx.clone(), ids.clone(), ids.clone(), ksf.clone(), false);
        ops.pop();
        // "every random tape" includes degenerate ones: a quarter of the no-record attempts
        // run on a tape whose first Nh bytes (the dummy masking key draw) are zeros or 0xFF bytes
        if g.chance(1, 4) {
            if let Op::LoginRespond { tape, .. } = &mut ops[1] {
                if let crate::world::Tape::Own(l) = tape.clone() {
                    let fill = if g.chance(1, 2) { 0u8 } else { 0xFF };
                    *tape = crate::world::Tape::Scripted(l, vec![fill; nh].into());
                }
            }
        }
        fake_states.push(l.sst);
        // the same request is also answered with the real record and once more without: beta must agree
        let st2 = b.id();
        let m2 = b.id();
        let t2 = b.tape("loginrespond");
        ops.push(Op::LoginRespond { st: st2, msg: m2, tape: t2, setup: Ref::mem(setup), record: Some(Ref::mem(r.record)), req: Ref::mem(l.req), cred: (*cred).clone().into(), ctx: ctx.clone().map(Into::into), ids: ids.clone() });
        let st3 = b.id();
        let m3 = b.id();
        let t3 = b.tape("loginrespond");
        ops.push(Op::LoginRespond { st: st3, msg: m3, tape: t3, setup: Ref::mem(setup), record: None, req: Ref::mem(l.req), cred: (*cred).clone().into(), ctx: ctx.clone().map(Into::into), ids: ids.clone() });
        fake_states.push(st3);
        // client reaction to the second fake response as well
        let out = b.id();
        ops.push(Op::LoginFinish { out, st: Ref::mem(l.cst), pw: pw.clone().into(), resp: Ref::mem(m3), ctx: ctx.clone().map(Into::into), ids: ids.clone(), ksf: ksf.clone() });
        threads.push(ops);
    }
    // crafted requests: an honest request whose key share is replaced by a public key the
    // adversary may hold (the client key of the password file — e.g. from an old leak —, the
    // server's key, another session's share). Each is sent for the registered identifier with
    // and without the password file and for the unregistered identifier: whatever the server
    // does with such a request, it must do the same in all three cases
    {
        let (pst, preq) = (b.id(), b.id());
        let tape = b.tape("loginstart");
        let mut ops = vec![Op::LoginStart { st: pst, msg: preq, tape, pw: pw.clone().into() }];
        let lens = s.lens();
        let head = crate::world::Part { id: preq, from: 0, to: lens.noe + 32 };
        let donors = [
            crate::world::Part { id: r.record, from: 0, to: lens.npk },
            crate::world::Part { id: r.resp, from: lens.noe, to: lens.noe + lens.npk },
        ];
        for d in donors {
            for (rec, cred) in [(Some(r.record), &cred_a), (None, &cred_a), (None, &cred_x)] {
                let (st, msg) = (b.id(), b.id());
                let tape = b.tape("loginrespond");
                let req = Ref::Splice { kind: Kind::CredReq, parts: vec![head.clone(), d.clone()] };
                ops.push(Op::LoginRespond { st, msg, tape, setup: Ref::mem(setup), record: rec.map(Ref::mem), req, cred: cred.clone().into(), ctx: ctx.clone().map(Into::into), ids: ids.clone() });
            }
        }
        threads.push(ops);
    }
    b.interleave(&mut g, threads);
    // no finalization can complete a fake server state
    for st in fake_states {
        for f in &fin_pool {
            b.push(Op::ServerFinish { st: Ref::mem(st), fin: Ref::mem(*f) });
        }
        b.push(Op::ServerFinish { st: Ref::mem(st), fin: Ref::lit(Kind::CredFin, vec![0; nh]) });
        b.push(Op::ServerFinish { st: Ref::mem(st), fin: Ref::lit(Kind::CredFin, vec![0xFF; nh]) });
        for _ in 0..6 {
            b.push(Op::ServerFinish { st: Ref::mem(st), fin: Ref::lit(Kind::CredFin, g.bytes(nh)) });
        }
        // finalizations anybody can compute without a secret: MACs and hashes over constants
        let h = oprf_hash(s.oprf());
        let consts: [Vec<u8>; 3] = [vec![0u8; nh], vec![0xFFu8; nh], vec![]];
        for k in &consts {
            for m in &consts {
                b.push(Op::ServerFinish { st: Ref::mem(st), fin: Ref::lit(Kind::CredFin, h.hmac(k, &[m])) });
            }
            b.push(Op::ServerFinish { st: Ref::mem(st), fin: Ref::lit(Kind::CredFin, h.hash(&[k])) });
        }
    }
    // a third of the worlds run on a generator whose try_fill_bytes reports errors
    if idx % 3 == 2 {
        b.w.knobs.rng_try_fill_fails = true;
    }
    b.w
}

pub fn judge(w: &World, r: &RunResult) -> Vec<Violation> {
    let s = suite_by_name(&w.suite).unwrap();
    let lens = s.lens();
    let fl = fields(Kind::CredResp, &lens);
    let total: usize = fl.iter().map(|f| f.len).sum();
    let h = oprf_hash(s.oprf());
    let mut v = vec![];
    // collect all responses: (op idx, is_fake, key(setup,req,cred), bytes)
    let mut resps: Vec<(usize, bool, String, Vec<u8>)> = vec![];
    let mut setup_pk: Option<Vec<u8>> = None;
    let mut candidates: Vec<Vec<u8>> = vec![vec![0u8; lens.nh], vec![0xFFu8; lens.nh]];
    for (i, (op, e)) in w.ops.iter().zip(r.events.iter()).enumerate() {
        let Ok(outs) = &e.res else { continue };
        match op {
            Op::NewSetup { .. } => {
                setup_pk = outs.iter().find(|(n, _)| *n == "pk").map(|(_, h)| h.0.clone());
            }
            Op::LoginRespond { setup, record, req, cred, .. } => {
                if let Some((_, m)) = outs.iter().find(|(n, _)| *n == "msg") {
                    resps.push((i, record.is_none(), format!("{setup:?}|{req:?}|{cred:?}"), m.0.clone()));
                }
            }
            Op::RegFinish { .. } => {
                if let Some((_, up)) = outs.iter().find(|(n, _)| *n == "upload") {
                    // the real record's masking key is a candidate a lazy fake path might reuse
                    candidates.push(up.0[lens.npk..lens.npk + lens.nh].to_vec());
                }
            }
            _ => {}
        }
        // every Nh-byte draw of the run is a candidate too
        for d in &e.draws {
            if d.0.len() == lens.nh {
                candidates.push(d.0.clone());
            }
        }
    }
    // the fake key pair is per-setup randomness, not derivable from the static key
    let mut fakes: Vec<(usize, Vec<u8>, Vec<u8>)> = vec![];
    for (i, (op, e)) in w.ops.iter().zip(r.events.iter()).enumerate() {
        if let (Op::NewSetup { .. } | Op::NewSetupWithKey { .. }, Ok(outs)) = (op, &e.res) {
            if let Some((_, st)) = outs.iter().find(|(n, _)| *n == "setup") {
                if st.0.len() == lens.nh + 2 * lens.nsk {
                    fakes.push((i, st.0[lens.nh..lens.nh + lens.nsk].to_vec(), st.0[lens.nh + lens.nsk..].to_vec()));
                }
            }
        }
    }
    for a in 0..fakes.len() {
        if !w.knobs.hsm_handle && fakes[a].1 == fakes[a].2 {
            v.push(Violation { clause: "fake_keypair_not_fresh", op: fakes[a].0, detail: "the setup's fake key pair equals its static key pair".into() });
        }
        for b2 in a + 1..fakes.len() {
            if fakes[a].2 == fakes[b2].2 {
                v.push(Violation { clause: "fake_keypair_not_fresh", op: fakes[b2].0, detail: format!("two setups created on independent tapes (ops {} and {}) hold the same fake key pair {}: it is derived from the static key, not drawn", fakes[a].0, fakes[b2].0, hex::encode(&fakes[a].2)) });
            }
        }
    }
    // a login attempt without a password file must be answered, like a real one
    for (i, (op, e)) in w.ops.iter().zip(r.events.iter()).enumerate() {
        if let Op::LoginRespond { record: None, ctx, .. } = op {
            let ctx_ok = ctx.as_ref().map_or(true, |c| c.0.len() <= 65535);
            if let (false, Err(f), true) = (e.skipped, &e.res, ctx_ok) {
                if f.stage == crate::suite::Stage::Op {
                    v.push(Violation { clause: "fake_structure", op: i, detail: format!("a login attempt without a password file is refused ({}) where a registered user gets a response", f.short()) });
                }
            }
        }
    }
    // the same request is answered or refused alike with and without a password file
    {
        let mut by_req: BTreeMap<String, Vec<(usize, bool, Result<(), String>)>> = BTreeMap::new();
        for (i, (op, e)) in w.ops.iter().zip(r.events.iter()).enumerate() {
            if let (Op::LoginRespond { setup, record, req, ctx, .. }, false) = (op, e.skipped) {
                if ctx.as_ref().map_or(false, |c| c.0.len() > 65535) {
                    continue;
                }
                let outcome = match &e.res {
                    Ok(_) => Ok(()),
                    Err(f) if f.is_panic() => continue,
                    Err(f) => Err(f.short()),
                };
                by_req.entry(format!("{setup:?}|{req:?}")).or_default().push((i, record.is_none(), outcome));
            }
        }
        for group in by_req.values() {
            let real: Vec<_> = group.iter().filter(|x| !x.1).collect();
            let fake: Vec<_> = group.iter().filter(|x| x.1).collect();
            if let (Some(re), Some(fa)) = (real.first(), fake.iter().find(|f| real.iter().any(|r| r.2.is_ok() != f.2.is_ok()))) {
                v.push(Violation { clause: "fake_structure", op: fa.0, detail: format!("one request, two answers: with the password file (op {}) {:?}, without one (op {}) {:?} — the difference tells whether the user is registered", re.0, real.iter().map(|r| r.2.clone()).collect::<Vec<_>>(), fa.0, fa.2) });
            }
        }
    }
    // (a) structure
    for (i, fake, _, b) in &resps {
        if *fake && b.len() != total {
            v.push(Violation { clause: "fake_structure", op: *i, detail: format!("fake response has {} bytes, a real one {}", b.len(), total) });
        }
        if *fake && s.decode(Kind::CredResp, crate::suite::Codec::Native, b).is_err() {
            v.push(Violation { clause: "fake_structure", op: *i, detail: "fake response does not decode as a credential response".into() });
        }
    }
    // (b) same (setup, request, credential id) => same evaluation element, record or not
    let mut by_key: BTreeMap<&str, (usize, &[u8])> = BTreeMap::new();
    for (i, _, k, b) in &resps {
        let beta = &b[..lens.noe];
        match by_key.get(k.as_str()) {
            Some((i0, b0)) if *b0 != beta => v.push(Violation {
                clause: "fake_evaluation_differs",
                op: *i,
                detail: format!("evaluation element differs between op {i0} and op {i} for the same (setup, request, credential id): {} vs {}", hex::encode(b0), hex::encode(beta)),
            }),
            Some(_) => {}
            None => {
                by_key.insert(k, (*i, beta));
            }
        }
    }
    // (c) every other field differs from every earlier observation, real or fake
    for f in fl.iter().skip(1) {
        let mut seen: BTreeMap<&[u8], usize> = BTreeMap::new();
        for (i, _, _, b) in &resps {
            let x = &b[f.off..f.off + f.len];
            if let Some(i0) = seen.get(x) {
                v.push(Violation {
                    clause: "fake_field_repeats",
                    op: *i,
                    detail: format!("field {} of the response at op {i} repeats the one at op {i0}: {}", f.name, hex::encode(x)),
                });
                break;
            }
            seen.insert(x, *i);
        }
    }
    // fake masking key must not be a known/constant value: unmask with candidates
    if let Some(pk) = &setup_pk {
        let mr = &fl[2];
        let mn = &fl[1];
        for (i, fake, _, b) in &resps {
            if !*fake {
                continue;
            }
            // draws made by this very call are legitimate sources; exclude them
            // (any window of the call's own tape: a key assembled from two draws is as legitimate)
            let own: Vec<u8> = r.events[*i].draws.iter().flat_map(|d| d.0.iter().copied()).collect();
            for k in &candidates {
                if own.windows(k.len()).any(|w| w == k.as_slice()) {
                    continue;
                }
                let pad = credential_response_pad(h, k, &b[mn.off..mn.off + mn.len], mr.len);
                let plain: Vec<u8> = pad.iter().zip(&b[mr.off..mr.off + mr.len]).map(|(a, c)| a ^ c).collect();
                if &plain[..lens.npk] == pk.as_slice() && plain[lens.npk..].iter().all(|x| *x == 0) {
                    v.push(Violation {
                        clause: "fake_masking_key_predictable",
                        op: *i,
                        detail: format!("fake response unmasks to server_pk ‖ 0…0 under a key known outside this call: {}", hex::encode(k)),
                    });
                    break;
                }
            }
        }
    }
    // the key service sees the same calls whether or not the user exists (it is a party too: a
    // key that is asked for its public key only for registered users learns — and, when it
    // fails, reveals — who is registered)
    {
        let mut real: Option<(usize, Vec<String>)> = None;
        for (i, (op, e)) in w.ops.iter().zip(r.events.iter()).enumerate() {
            if let (Op::LoginRespond { record: Some(_), .. }, Ok(_), false) = (op, &e.res, e.skipped) {
                real = Some((i, e.hsm_calls.iter().filter(|c| c.as_str() != "Clone").cloned().collect()));
                break;
            }
        }
        if let Some((ri, rc)) = real {
            for (i, (op, e)) in w.ops.iter().zip(r.events.iter()).enumerate() {
                if let (Op::LoginRespond { record: None, .. }, Ok(_), false) = (op, &e.res, e.skipped) {
                    let fc: Vec<String> = e.hsm_calls.iter().filter(|c| c.as_str() != "Clone").cloned().collect();
                    if fc != rc {
                        v.push(Violation { clause: "fake_structure", op: i, detail: format!("the external key is called differently for a user without a password file (op {i}: {fc:?}) than for a registered one (op {ri}: {rc:?})") });
                        break;
                    }
                }
            }
        }
    }
    // entropy accounting: the no-record answer carries one more fresh value than the with-record
    // answer, a stand-in masking key of Nh bytes; it cannot have come out of fewer than Nh
    // additional bytes of tape (minima over the run, so that rejection sampling is no alarm)
    if !w.knobs.rng_try_fill_fails {
        let (mut min_real, mut min_fake): (Option<(usize, usize)>, Option<(usize, usize)>) = (None, None);
        for (i, (op, e)) in w.ops.iter().zip(r.events.iter()).enumerate() {
            if let (Op::LoginRespond { record, .. }, Ok(_), false) = (op, &e.res, e.skipped) {
                let n: usize = e.draws.iter().map(|d| d.0.len()).sum();
                let slot = if record.is_none() { &mut min_fake } else { &mut min_real };
                if slot.map_or(true, |(m, _)| n < m) {
                    *slot = Some((n, i));
                }
            }
        }
        if let (Some((re, ri)), Some((fa, fi))) = (min_real, min_fake) {
            if fa < re + lens.nh {
                v.push(Violation { clause: "fake_masking_key_predictable", op: fi, detail: format!("the answer without a password file (op {fi}) drew {fa} bytes of randomness, the answer with one (op {ri}) {re}: the {}-byte stand-in masking key cannot be fresh", lens.nh) });
            }
        }
    }
    v
}

pub fn run(ctx: &Ctx) -> Report {
    let mut rep = Report::new(
        "per world: one registration, 2 real logins and 4 fake attempts (unregistered id twice, registered id without record, again) interleaved; each fake request is also answered with the real record and once more without; each real request is replayed to the server once; 2 crafted requests (key share := the password file's client key / the server's key) are sent for the registered identifier with and without the file and for the unregistered one and must be answered or refused alike. Checked: equal length + decodes; evaluation element equal for equal (setup, request, credential id) with or without record; masking nonce / masked response / server nonce / server ephemeral key / MAC never repeat across the run; fake response must not unmask to server_pk‖0 under any key visible outside that call (zero, 0xFF, real masking keys, any Nh-byte draw of another call) and must have drawn at least Nh bytes of tape more than a with-record answer; with an externally held key the key service must see the same calls with and without a password file; client gets InvalidLoginError; zero / 0xFF / random / real finalizations and MACs/hashes over constants (computable without any secret) never complete a fake server state. What is decidable is non-repetition and tape-dependence, not unpredictability as such",
    );
    let mut suites: Vec<&'static dyn SuiteOps> = SIM_SUITES.to_vec();
    suites.extend(ID_SUITES.iter().step_by(ctx.pick(4, 1)));
    let per = ctx.pick(8, 300);
    let mut jobs: Vec<(usize, u64)> = vec![];
    for si in 0..suites.len() {
        for k in 0..per {
            jobs.push((si, k as u64));
        }
    }
    let seed = ctx.seed;
    let gen = |i: usize| {
        let (si, k) = jobs[i];
        gen_world(seed, k, suites[si])
    };
    super::world_batch(ctx, &mut rep, jobs.len(), &gen, OWN, false, Some(&judge));
    rep.assumptions.push("freshness of the hidden fake masking key beyond the candidate test is C17's business".into());
    rep
}

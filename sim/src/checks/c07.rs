//! C07 — sessions are fresh and isolated under adversarial message routing.
//! The core simulation: a bounded population (5 registration records, 4 live
//! client sessions + one old replayed session, 2 credential identifiers) and
//! EVERY routing inside it — each request to every (record, credential id),
//! each response to every pending client, each finalization to every pending
//! server session — executed in a seeded random topological order.

use std::collections::{BTreeMap, BTreeSet};

use crate::driver::{Ctx, Report};
use crate::gen::*;
use crate::rng::Gen;
use crate::suite::{Grp, Kind, SuiteOps, ID_SUITES, SIM_SUITES};
use crate::world::{run_world, IdSpec, Op, Part, Ref, RunResult, Tape, Violation, WIds, World};

pub const OWN: &[&str] = &[
    "client_accept_unexpected",
    "client_reject_unexpected",
    "server_accept_unexpected",
    "server_reject_unexpected",
    "key_mismatch",
    "duplicate_session_key",
    "step_failed",
    "schedule_dependence",
    "liveness_after_faults",
];

/// seeded random topological order of `ops` (an op is ready when every item it
/// reads has been produced)
pub fn topo_shuffle(g: &mut Gen, ops: Vec<Op>) -> Vec<Op> {
    let mut produced: BTreeSet<u32> = BTreeSet::new();
    let mut pending: Vec<Op> = ops;
    let mut out = Vec::with_capacity(pending.len());
    while !pending.is_empty() {
        let ready: Vec<usize> = (0..pending.len())
            .filter(|i| pending[*i].ins().iter().all(|d| produced.contains(d)))
            .collect();
        if ready.is_empty() {
            // dangling inputs (consumers of something that may not exist): emit in order
            let op = pending.remove(0);
            for o in op.outs() {
                produced.insert(o);
            }
            out.push(op);
            continue;
        }
        let k = *g.pick(&ready);
        let op = pending.remove(k);
        for o in op.outs() {
            produced.insert(o);
        }
        out.push(op);
    }
    out
}

pub struct Pop {
    pub world: World,
    pub n_adversarial: usize,
    pub n_liveness_logins: usize,
}

/// `sample`: None = every routing; Some(k) = keep about 1/k of the client
/// finishes (expensive suites in the quick tier)
pub fn gen_world(seed: u64, idx: u64, s: &dyn SuiteOps, shared_tapes: bool, sample: Option<usize>) -> Pop {
    let mut g = Gen::new(seed, &format!("gen/c07/{}/{}", s.name(), idx));
    let mut b = WB::new(s, seed, idx, if shared_tapes { "c07 all routings, shared RNGs, seeded order" } else { "c07 all routings, label tapes (schedule-independence pass)" });
    let fam = s.ksf_family();
    let setup = b.setup(false);
    let pw1 = small_pw(&mut g);
    let mut pw2 = small_pw(&mut g);
    if pw2 == pw1 {
        pw2.push(b'2');
    }
    let mut pw3 = pw1.clone();
    pw3.push(b'!');
    // credential identifiers: short, or twins sharing a long prefix / differing in whitespace
    let (cred_a, cred_b) = if g.chance(1, 3) {
        let pairs = crate::checks::c05::cred_pairs(&mut g);
        let twins: Vec<&(Vec<u8>, Vec<u8>)> = pairs.iter().filter(|p| p.0 != p.1 && p.0.len() < 1000).collect();
        let p = *g.pick(&twins);
        (p.0.clone(), p.1.clone())
    } else {
        let a = small_cred(&mut g);
        let mut b2 = small_cred(&mut g);
        if b2 == a {
            b2.push(1);
        }
        (a, b2)
    };
    let ksf = gen_ksf(&mut g, fam, true);
    // identities: shared by everybody, or per user (then a cross-user routing also disagrees on identities)
    let idmode = g.below(5);
    let uid = |name: &[u8]| -> WIds {
        match idmode {
            0 => WIds::default(),
            1 => WIds { client: IdSpec::Bytes(b"client".to_vec().into()), server: IdSpec::Bytes(b"server".to_vec().into()) },
            2 => WIds { client: IdSpec::Bytes(name.to_vec().into()), server: IdSpec::Absent },
            3 => WIds { client: IdSpec::Absent, server: IdSpec::Bytes(b"server".to_vec().into()) },
            _ => WIds { client: IdSpec::Bytes(name.to_vec().into()), server: IdSpec::Bytes(b"server".to_vec().into()) },
        }
    };
    let names: [&[u8]; 4] = [b"alice", b"bob", b"carol", b"alice\n"]; // the re-registration spells the name with a trailing newline
    let ids = uid(b"alice");
    let ctx = if g.chance(1, 2) { Some(b"c07".to_vec()) } else { None };
    let mut prelude: Vec<Op> = vec![];
    let mut regs = vec![];
    for (k, (pw, cred)) in [(&pw1, &cred_a), (&pw2, &cred_b), (&pw1, &cred_b), (&pw1, &cred_a)].into_iter().enumerate() {
        let (r, ops) = b.reg_ops(&mut g, setup, pw, pw, cred, uid(names[k]), ksf.clone(), false);
        prelude.extend(ops);
        regs.push((r.record, pw.clone(), cred.clone(), uid(names[k])));
    }
    // an earlier day: one complete honest login of u1, later replayed
    let (old, ops) = b.login_ops(&mut g, setup, Some(regs[0].0), &pw1, &pw1, &cred_a, ctx.clone(), ctx.clone(), ids.clone(), ids.clone(), ksf.clone(), false);
    prelude.extend(ops);
    for o in prelude {
        b.push(o);
    }
    let ctape = |b: &mut WB, what: &str| if shared_tapes { Tape::Shared("client".into()) } else { b.tape(what) };
    let stape = |b: &mut WB, what: &str| if shared_tapes { Tape::Shared("server".into()) } else { b.tape(what) };
    // live client sessions
    let mut adv: Vec<Op> = vec![];
    let mut clients: Vec<(u32, u32, Vec<u8>, WIds)> = vec![]; // (state, request, password, the identities this user expects)
    for (pw, who) in [(&pw1, 0usize), (&pw2, 1), (&pw3, 0), (&pw1, 2)] {
        let st = b.id();
        let msg = b.id();
        let tape = ctape(&mut b, "loginstart");
        adv.push(Op::LoginStart { st, msg, tape, pw: pw.clone().into() });
        clients.push((st, msg, pw.clone(), uid(names[who])));
    }
    // every request (4 live + the old one) -> every (record | none, cred)
    let mut requests: Vec<u32> = clients.iter().map(|c| c.1).collect();
    requests.push(old.req);
    let mut sessions: Vec<(u32, u32)> = vec![]; // (server state, response)
    let records: Vec<(Option<u32>, WIds)> = regs.iter().map(|r| (Some(r.0), r.3.clone())).chain([(None, uid(b"nobody"))]).collect();
    for rq in &requests {
        for (rec, rids) in &records {
            for cred in [&cred_a, &cred_b] {
                let st = b.id();
                let msg = b.id();
                let tape = stape(&mut b, "loginrespond");
                // the network is bytes: a third of the deliveries go through a codec
                let vq = if g.chance(1, 3) { via(&mut g) } else { crate::suite::Codec::Mem };
                let vr = if g.chance(1, 6) { via(&mut g) } else { crate::suite::Codec::Mem };
                adv.push(Op::LoginRespond { st, msg, tape, setup: Ref::mem(setup), record: rec.map(|r| Ref::via(r, vr)), req: Ref::via(*rq, vq), cred: cred.clone().into(), ctx: ctx.clone().map(Into::into), ids: rids.clone() });
                sessions.push((st, msg));
            }
        }
    }
    // every response (+ the old one) -> every pending client
    let mut responses: Vec<u32> = sessions.iter().map(|s| s.1).collect();
    responses.push(old.resp);
    let mut fins: Vec<u32> = vec![old.fin];
    let mut fin_session: Vec<usize> = vec![sessions.len()]; // index into sstates of the session a finalization answers
    let mut n = 0usize;
    for (ri, rs) in responses.iter().enumerate() {
        for (cst, _, pw, cids) in &clients {
            n += 1;
            if let Some(k) = sample {
                if g.below(k) != 0 {
                    continue;
                }
            }
            let out = b.id();
            let vs = if g.chance(1, 4) { via(&mut g) } else { crate::suite::Codec::Mem };
            let vr = if g.chance(1, 3) { via(&mut g) } else { crate::suite::Codec::Mem };
            adv.push(Op::LoginFinish { out, st: Ref::via(*cst, vs), pw: pw.clone().into(), resp: Ref::via(*rs, vr), ctx: ctx.clone().map(Into::into), ids: cids.clone(), ksf: ksf.clone() });
            fins.push(out);
            fin_session.push(ri);
        }
    }
    let _ = n;
    // every finalization that may exist -> every pending server session (+ the old one)
    let mut sstates: Vec<u32> = sessions.iter().map(|s| s.0).collect();
    sstates.push(old.sst);
    for f in &fins {
        for st in &sstates {
            let vs = if g.chance(1, 8) { via(&mut g) } else { crate::suite::Codec::Mem };
            adv.push(Op::ServerFinish { st: Ref::via(*st, vs), fin: Ref::mem(*f) });
        }
    }
    // the adversary also assembles messages from pieces of the ones it has seen
    let lens = s.lens();
    let whole = |id: u32| Part { id, from: 0, to: usize::MAX };
    // (a) a finalization followed / preceded by another one, to the session it answers
    for (fi, f) in fins.iter().enumerate() {
        // the other half must exist whatever the clients decide: the old session's finalization
        let _ = fi;
        let other = old.fin;
        let st = sstates[fin_session[fi]];
        let parts = if g.chance(1, 2) { vec![whole(*f), whole(other)] } else { vec![whole(other), whole(*f)] };
        adv.push(Op::ServerFinish { st: Ref::mem(st), fin: Ref::Splice { kind: Kind::CredFin, parts } });
    }
    // (b) responses cut at a field boundary: head of one session's response, tail of another's,
    // delivered to the client either response was made for
    let rf = crate::layout::fields(Kind::CredResp, &lens);
    for _ in 0..24 {
        let (a, bb) = (g.below(sessions.len()), g.below(sessions.len()));
        // mostly at a field boundary; sometimes inside the server MAC (after its first 32 bytes,
        // or anywhere) or at any offset
        let mac = rf.last().unwrap();
        let cut = match g.below(6) {
            0 => mac.off + 32.min(mac.len - 1),
            1 => mac.off + 1 + g.below(mac.len - 1),
            2 => 1 + g.below(mac.off + mac.len - 1),
            _ => rf[1 + g.below(rf.len() - 1)].off,
        };
        let (cst, _, pw, cids) = &clients[(if g.chance(1, 2) { a } else { bb } / (records.len() * 2)).min(clients.len() - 1)];
        let out = b.id();
        let resp = Ref::Splice { kind: Kind::CredResp, parts: vec![Part { id: sessions[a].1, from: 0, to: cut }, Part { id: sessions[bb].1, from: cut, to: usize::MAX }] };
        adv.push(Op::LoginFinish { out, st: Ref::mem(*cst), pw: pw.clone().into(), resp, ctx: ctx.clone().map(Into::into), ids: cids.clone(), ksf: ksf.clone() });
        // whatever it yields goes to both sessions
        for k in [a, bb] {
            adv.push(Op::ServerFinish { st: Ref::mem(sessions[k].0), fin: Ref::mem(out) });
        }
    }
    // (c) requests: the blinded element of one client with the nonce and key share of another,
    // answered under the first client's record; both clients try to finish with the answer
    let qf = crate::layout::fields(Kind::CredReq, &lens);
    for (x, y) in [(0usize, 3usize), (3, 0), (0, 2), (1, 0)] {
        let st = b.id();
        let msg = b.id();
        let tape = stape(&mut b, "loginrespond");
        let req = Ref::Splice { kind: Kind::CredReq, parts: vec![Part { id: clients[x].1, from: 0, to: qf[1].off }, Part { id: clients[y].1, from: qf[1].off, to: usize::MAX }] };
        let who = [0usize, 1, 0, 2][x];
        adv.push(Op::LoginRespond { st, msg, tape, setup: Ref::mem(setup), record: Some(Ref::mem(regs[who].0)), req, cred: regs[who].2.clone().into(), ctx: ctx.clone().map(Into::into), ids: regs[who].3.clone() });
        for c in [x, y] {
            let (cst, _, pw, cids) = &clients[c];
            let out = b.id();
            adv.push(Op::LoginFinish { out, st: Ref::mem(*cst), pw: pw.clone().into(), resp: Ref::mem(msg), ctx: ctx.clone().map(Into::into), ids: cids.clone(), ksf: ksf.clone() });
            adv.push(Op::ServerFinish { st: Ref::mem(st), fin: Ref::mem(out) });
        }
    }
    // (d) a client's own request followed by bytes of another one: answered under that client's
    // record, and the client tries to finish with the answer
    for (x, extra) in [(0usize, 1usize), (1, 300), (3, 32)] {
        let st = b.id();
        let msg = b.id();
        let tape = stape(&mut b, "loginrespond");
        let req = Ref::Splice { kind: Kind::CredReq, parts: vec![whole(clients[x].1), Part { id: clients[(x + 1) % clients.len()].1, from: 0, to: extra }] };
        let who = [0usize, 1, 0, 2][x];
        adv.push(Op::LoginRespond { st, msg, tape, setup: Ref::mem(setup), record: Some(Ref::mem(regs[who].0)), req, cred: regs[who].2.clone().into(), ctx: ctx.clone().map(Into::into), ids: regs[who].3.clone() });
        let (cst, _, pw, cids) = &clients[x];
        let out = b.id();
        adv.push(Op::LoginFinish { out, st: Ref::mem(*cst), pw: pw.clone().into(), resp: Ref::mem(msg), ctx: ctx.clone().map(Into::into), ids: cids.clone(), ksf: ksf.clone() });
        adv.push(Op::ServerFinish { st: Ref::mem(st), fin: Ref::mem(out) });
    }
    // (e) a whole response followed by the first bytes / the whole of another one, delivered to
    // the client it was made for (seeded change R8C07-A: a decoder that ignores what follows
    // the server MAC lets a client complete on a response no server session produced)
    for extra in [1usize, 32, usize::MAX] {
        let (a, bb) = (g.below(sessions.len()), g.below(sessions.len()));
        let (cst, _, pw, cids) = &clients[(a / (records.len() * 2)).min(clients.len() - 1)];
        let out = b.id();
        let resp = Ref::Splice { kind: Kind::CredResp, parts: vec![whole(sessions[a].1), Part { id: sessions[bb].1, from: 0, to: extra }] };
        adv.push(Op::LoginFinish { out, st: Ref::mem(*cst), pw: pw.clone().into(), resp, ctx: ctx.clone().map(Into::into), ids: cids.clone(), ksf: ksf.clone() });
        adv.push(Op::ServerFinish { st: Ref::mem(sessions[a].0), fin: Ref::mem(out) });
    }
    let n_adv = adv.len();
    let mut g2 = Gen::new(seed, &format!("sched/c07/{}/{}", s.name(), idx));
    for o in topo_shuffle(&mut g2, adv) {
        b.push(o);
    }
    // faults stop: every registered user logs in honestly, in exactly four steps
    let mut nl = 0;
    for (rec, pw, cred, rids) in &regs {
        let (_, ops) = b.login_ops(&mut g, setup, Some(*rec), pw, pw, cred, ctx.clone(), ctx.clone(), rids.clone(), rids.clone(), ksf.clone(), false);
        for o in ops {
            b.push(o);
        }
        nl += 1;
    }
    Pop { world: b.w, n_adversarial: n_adv, n_liveness_logins: nl }
}

/// bounded liveness + (for label-tape worlds) schedule independence
pub fn judge(w: &World, r: &RunResult) -> Vec<Violation> {
    let mut v = vec![];
    // liveness: the last 4*k ops are honest logins; each must have completed
    let tail: Vec<(usize, &Op)> = w.ops.iter().enumerate().rev().take_while(|(_, o)| matches!(o, Op::LoginStart { .. } | Op::LoginRespond { .. } | Op::LoginFinish { .. } | Op::ServerFinish { .. })).collect();
    let mut k = 0;
    // walk back in groups of four as long as the group is a fresh honest login
    let mut idx = w.ops.len();
    while idx >= 4 {
        let grp = &w.ops[idx - 4..idx];
        let honest = matches!(&grp[0], Op::LoginStart { .. }) && matches!(&grp[1], Op::LoginRespond { .. }) && matches!(&grp[2], Op::LoginFinish { .. }) && matches!(&grp[3], Op::ServerFinish { .. });
        if !honest {
            break;
        }
        let ok = r.events[idx - 4..idx].iter().all(|e| !e.skipped && e.res.is_ok());
        if !ok && k < 4 {
            let first_bad = r.events[idx - 4..idx].iter().find(|e| e.skipped || e.res.is_err()).unwrap();
            v.push(Violation {
                clause: "liveness_after_faults",
                op: first_bad.op,
                detail: format!("after the adversarial phase an honest login did not complete in its four steps: {} -> {:?}", first_bad.name, first_bad.res.as_ref().err().map(|f| f.short())),
            });
        }
        k += 1;
        idx -= 4;
        if k >= 4 {
            break;
        }
    }
    let _ = tail;
    // schedule independence (only meaningful with label-derived tapes)
    let own_tapes = w.ops.iter().all(|o| match o {
        Op::NewSetup { tape, .. } | Op::RegStart { tape, .. } | Op::RegFinish { tape, .. } | Op::LoginStart { tape, .. } | Op::LoginRespond { tape, .. } => !matches!(tape, Tape::Shared(_)),
        _ => true,
    });
    if own_tapes && w.note.contains("schedule-independence") {
        let mut g = Gen::new(w.seed, &format!("resched/{}/{}", w.suite, w.index));
        let mut w2 = w.clone();
        w2.ops = topo_shuffle(&mut g, w.ops.clone());
        let r2 = run_world(&w2);
        let key = |o: &Op| serde_json::to_string(o).unwrap();
        let m1: BTreeMap<String, String> = w.ops.iter().zip(r.events.iter()).map(|(o, e)| (key(o), format!("{:?}", e.res))).collect();
        for (o, e) in w2.ops.iter().zip(r2.events.iter()) {
            let k = key(o);
            let got = format!("{:?}", e.res);
            if let Some(exp) = m1.get(&k) {
                if exp != &got {
                    v.push(Violation {
                        clause: "schedule_dependence",
                        op: e.op,
                        detail: format!("{}: output differs between two interleavings of the same world (label-derived tapes): {} vs {}", e.name, &exp[..exp.len().min(120)], &got[..got.len().min(120)]),
                    });
                    break;
                }
            }
        }
    }
    v
}

pub fn run(ctx: &Ctx) -> Report {
    let mut rep = Report::new(
        "per world: 1 server, records {u1(pw1,a), u2(pw2,b), u3(pw1,b), u1 re-registered(pw1,a), none}, credential ids {a,b}, an old complete u1 login (replay source), live client sessions {pw1, pw2, wrong pw, pw1}; every request (4 live + old) -> every (record|none, cred) = 50 server sessions; every response (50 + old) -> every pending client = 204 client finishes; every finalization that may exist -> every server session; messages the adversary assembles from observed ones (a finalization followed/preceded by another one, to the session it answers; 24 responses cut between two sessions' responses at a field boundary, inside the server MAC or anywhere; 4 requests with one client's blinded element and another's nonce and key share; 3 requests followed by bytes of another request); executed in a seeded random topological order with one shared RNG per party (flavour A) or label tapes + a second interleaving compared output-by-output (flavour B); then faults stop and every registered user must complete one honest login in four steps. Oracle: Model A on every finish, key agreement, pairwise-distinct session keys. Quick samples 1/4 of the client finishes on the P-384/P-521 key-exchange groups. Plus seeded random walks (40-120 random ops over 1-3 setups incl. a key-swapped one, 4 passwords, 3 credential ids incl. a whitespace twin, 5 identity sets, 4 contexts, 3 KSF spellings; every input a random existing item, random codecs, random crash/reload), judged by Model A",
    );
    let mut suites: Vec<&'static dyn SuiteOps> = SIM_SUITES.to_vec();
    if !ctx.quick() {
        suites.extend(ID_SUITES.iter().step_by(3));
    }
    let per = ctx.pick(2, 60);
    let mut jobs: Vec<(usize, u64)> = vec![];
    for si in 0..suites.len() {
        for k in 0..per {
            jobs.push((si, k as u64));
        }
    }
    let seed = ctx.seed;
    let quick = ctx.quick();
    let gen = |i: usize| {
        let (si, k) = jobs[i];
        let s = suites[si];
        let heavy = matches!(s.ke(), Grp::P384 | Grp::P521) || matches!(s.oprf(), Grp::P521);
        let sample = if quick && heavy { Some(4) } else { None };
        gen_world(seed, k, s, k % 2 == 0, sample).world
    };
    super::world_batch(ctx, &mut rep, jobs.len(), &gen, OWN, false, Some(&judge));
    // unstructured seeded random walks over the same op grammar
    let cper = ctx.pick(12, 600);
    let cjobs: Vec<(usize, u64)> = (0..suites.len()).flat_map(|si| (0..cper).map(move |k| (si, k as u64))).collect();
    let genc = |i: usize| {
        let (si, k) = cjobs[i];
        gen_chaos(seed, k, suites[si], 40 + (k as usize % 5) * 20)
    };
    super::world_batch(ctx, &mut rep, cjobs.len(), &genc, OWN, false, None);
    rep.exhaustive = Some(false);
    rep
}

// ------------------------------------------------------------------ seeded random walk ("chaos") worlds

/// A seeded random walk over the op grammar. Several users register and log in
/// concurrently; each step advances a random session. Most steps are honest
/// (so runs make real progress and complete logins), about a quarter deviate in
/// exactly one aspect drawn at random: a message or state taken from another
/// session / user / server (replay, cross-delivery, duplication), another
/// password, credential id, identity set, context, KSF spelling or setup, a
/// crash/reload of a random party. Deliveries go through random codecs.
/// Model A judges every finish step.
pub fn gen_chaos(seed: u64, idx: u64, s: &dyn SuiteOps, nops: usize) -> World {
    let mut g = Gen::new(seed, &format!("gen/c07chaos/{}/{}", s.name(), idx));
    let mut b = WB::new(s, seed, idx, "c07 seeded random walk");
    let fam = s.ksf_family();
    let mut setups = vec![b.setup(false)];
    if g.chance(1, 2) {
        setups.push(b.setup(g.chance(1, 3)));
        let out = b.id();
        b.push(Op::SpliceSetup { out, seed_from: setups[0], key_from: setups[1] });
        setups.push(out);
    }
    let pw_a = small_pw(&mut g);
    let mut pw_a2 = pw_a.clone();
    pw_a2.push(b'x');
    let pws: Vec<Vec<u8>> = vec![pw_a.clone(), pw_a2, small_pw(&mut g), pw_a];
    let creds: Vec<Vec<u8>> = vec![small_cred(&mut g), b"user".to_vec(), b"user ".to_vec()];
    let idsets: Vec<WIds> = vec![
        WIds::default(),
        WIds { client: IdSpec::Bytes(b"alice".to_vec().into()), server: IdSpec::Absent },
        WIds { client: IdSpec::Bytes(b"alice".to_vec().into()), server: IdSpec::Bytes(b"srv".to_vec().into()) },
        WIds { client: IdSpec::Absent, server: IdSpec::Bytes(b"srv".to_vec().into()) },
        WIds { client: IdSpec::Bytes(b"bob".to_vec().into()), server: IdSpec::Bytes(b"srv".to_vec().into()) },
    ];
    let ctxs: Vec<Option<Vec<u8>>> = vec![None, Some(vec![]), Some(b"ctx".to_vec()), Some(b"cty".to_vec())];
    let ksfs: Vec<crate::suite::KsfArg> = vec![crate::suite::KsfArg::Absent, default_ksf_explicit(fam), gen_ksf(&mut g, fam, true)];
    #[derive(Clone)]
    struct User {
        setup: usize,
        pw: usize,
        cred: usize,
        ids: usize,
        ksf: usize,
        record: Option<u32>,
    }
    #[derive(Clone)]
    struct Sess {
        user: usize,
        phase: u8, // registration: 0 start,1 respond,2 finish,3 store ; login: 10 start,11 respond,12 finish,13 server finish
        st: u32,
        req: u32,
        resp: u32,
        sst: u32,
        fin: u32,
        ctx: usize,
    }
    let nusers = 2 + g.below(3);
    let mut users: Vec<User> = (0..nusers)
        .map(|_| User { setup: 0, pw: g.below(pws.len()), cred: g.below(creds.len()), ids: g.below(idsets.len()), ksf: g.below(ksfs.len()), record: None })
        .collect();
    let mut sess: Vec<Sess> = vec![];
    // pools of everything that ever existed, by role
    let (mut p_regreq, mut p_regresp, mut p_upload, mut p_record, mut p_creq, mut p_cresp, mut p_fin, mut p_cst, mut p_sst, mut p_rst) = (vec![], vec![], vec![], vec![], vec![], vec![], vec![], vec![], vec![], vec![]);
    let mut all: Vec<u32> = setups.clone();
    let pick_via = |g: &mut Gen| if g.chance(2, 3) { crate::suite::Codec::Mem } else { via(g) };
    // returns `honest` or, when deviating on this slot, a random pool member
    fn choose(g: &mut Gen, dev: bool, honest: u32, pool: &[u32]) -> u32 {
        if dev && !pool.is_empty() {
            *g.pick(pool)
        } else {
            honest
        }
    }
    // a message assembled from the session's own one and another observed one, cut at a field
    // boundary (or, for the single-field finalization, the two concatenated)
    let lens = s.lens();
    let mix = |g: &mut Gen, kind: Kind, own: u32, pool: &[u32]| -> Ref {
        let other = *g.pick(pool);
        let f = crate::layout::fields(kind, &lens);
        let (a, bb) = if g.chance(1, 2) { (own, other) } else { (other, own) };
        if f.len() < 2 {
            return Ref::Splice { kind, parts: vec![Part { id: a, from: 0, to: usize::MAX }, Part { id: bb, from: 0, to: usize::MAX }] };
        }
        let cut = f[1 + g.below(f.len() - 1)].off;
        Ref::Splice { kind, parts: vec![Part { id: a, from: 0, to: cut }, Part { id: bb, from: cut, to: usize::MAX }] }
    };
    for _ in 0..nops {
        // start something new, or advance a session
        if sess.is_empty() || g.chance(1, 4) {
            let u = g.below(users.len());
            let login = users[u].record.is_some() && g.chance(3, 4);
            sess.push(Sess { user: u, phase: if login { 10 } else { 0 }, st: 0, req: 0, resp: 0, sst: 0, fin: 0, ctx: g.below(ctxs.len()) });
        }
        let si = g.below(sess.len());
        let mut se = sess[si].clone();
        let u = users[se.user].clone();
        let deviate = g.chance(1, 4);
        let slot = g.below(6); // which aspect deviates
        let dev = |k: usize| deviate && slot == k;
        if deviate && slot == 5 && !all.is_empty() {
            b.push(Op::Reload { id: *g.pick(&all), codec: *g.pick(&crate::suite::BYTE_CODECS) });
        }
        let setup_of = |g: &mut Gen, dev: bool| if dev { *g.pick(&setups) } else { setups[u.setup] };
        match se.phase {
            0 => {
                let (st, msg) = (b.id(), b.id());
                let tape = b.tape("regstart");
                b.push(Op::RegStart { st, msg, tape, pw: pws[u.pw].clone().into() });
                se.st = st;
                se.req = msg;
                p_rst.push(st);
                p_regreq.push(msg);
                all.extend([st, msg]);
                se.phase = 1;
            }
            1 => {
                let out = b.id();
                let cred = if dev(1) { g.pick(&creds).clone() } else { creds[u.cred].clone() };
                let su = setup_of(&mut g, dev(2));
                let rq = choose(&mut g, dev(0), se.req, &p_regreq);
                b.push(Op::RegRespond { out, setup: Ref::via(su, pick_via(&mut g)), req: Ref::via(rq, pick_via(&mut g)), cred: cred.into() });
                se.resp = out;
                p_regresp.push(out);
                all.push(out);
                se.phase = 2;
            }
            2 => {
                let out = b.id();
                let tape = b.tape("regfinish");
                let pw = if dev(3) { g.pick(&pws).clone() } else { pws[u.pw].clone() };
                let rs = choose(&mut g, dev(0), se.resp, &p_regresp);
                let st = choose(&mut g, dev(4), se.st, &p_rst);
                b.push(Op::RegFinish { out, tape, st: Ref::via(st, pick_via(&mut g)), pw: pw.into(), resp: Ref::via(rs, pick_via(&mut g)), ids: idsets[u.ids].clone(), ksf: ksfs[u.ksf].clone() });
                se.fin = out;
                p_upload.push(out);
                all.push(out);
                se.phase = 3;
            }
            3 => {
                let out = b.id();
                let up = choose(&mut g, dev(0), se.fin, &p_upload);
                b.push(Op::RegStore { out, upload: Ref::via(up, pick_via(&mut g)) });
                p_record.push(out);
                all.push(out);
                // the user's record of file is the last one stored for them (a re-registration replaces it)
                users[se.user].record = Some(out);
                se.phase = 99;
            }
            10 => {
                let (st, msg) = (b.id(), b.id());
                let tape = b.tape("loginstart");
                let pw = if dev(3) { g.pick(&pws).clone() } else { pws[u.pw].clone() };
                b.push(Op::LoginStart { st, msg, tape, pw: pw.into() });
                se.st = st;
                se.req = msg;
                p_cst.push(st);
                p_creq.push(msg);
                all.extend([st, msg]);
                se.phase = 11;
            }
            11 => {
                let (st, msg) = (b.id(), b.id());
                let tape = b.tape("loginrespond");
                let rec = if dev(4) {
                    if g.chance(1, 3) { None } else { p_record.first().map(|_| *g.pick(&p_record)) }
                } else {
                    u.record
                };
                let cred = if dev(1) { g.pick(&creds).clone() } else { creds[u.cred].clone() };
                let su = setup_of(&mut g, dev(2));
                let rq = choose(&mut g, dev(0), se.req, &p_creq);
                let ids = if dev(3) { g.pick(&idsets).clone() } else { idsets[u.ids].clone() };
                let req = if dev(0) && g.chance(1, 3) { mix(&mut g, Kind::CredReq, se.req, &p_creq) } else { Ref::via(rq, pick_via(&mut g)) };
                b.push(Op::LoginRespond { st, msg, tape, setup: Ref::via(su, pick_via(&mut g)), record: rec.map(|r| Ref::via(r, pick_via(&mut g))), req, cred: cred.into(), ctx: ctxs[se.ctx].clone().map(Into::into), ids });
                se.sst = st;
                se.resp = msg;
                p_sst.push(st);
                p_cresp.push(msg);
                all.extend([st, msg]);
                se.phase = 12;
            }
            12 => {
                let out = b.id();
                let pw = if dev(3) { g.pick(&pws).clone() } else { pws[u.pw].clone() };
                let rs = choose(&mut g, dev(0), se.resp, &p_cresp);
                let st = choose(&mut g, dev(4), se.st, &p_cst);
                let ctx = if dev(1) { g.pick(&ctxs).clone() } else { ctxs[se.ctx].clone() };
                let ids = if dev(2) { g.pick(&idsets).clone() } else { idsets[u.ids].clone() };
                let ksf = if deviate && slot == 5 { g.pick(&ksfs).clone() } else { ksfs[u.ksf].clone() };
                let resp = if dev(0) && g.chance(1, 3) { mix(&mut g, Kind::CredResp, se.resp, &p_cresp) } else { Ref::via(rs, pick_via(&mut g)) };
                b.push(Op::LoginFinish { out, st: Ref::via(st, pick_via(&mut g)), pw: pw.into(), resp, ctx: ctx.map(Into::into), ids, ksf });
                se.fin = out;
                p_fin.push(out);
                all.push(out);
                se.phase = 13;
            }
            13 => {
                let f = choose(&mut g, dev(0), se.fin, &p_fin);
                let st = choose(&mut g, dev(4), se.sst, &p_sst);
                let fin = if dev(0) && g.chance(1, 3) { mix(&mut g, Kind::CredFin, se.fin, &p_fin) } else { Ref::via(f, pick_via(&mut g)) };
                b.push(Op::ServerFinish { st: Ref::via(st, pick_via(&mut g)), fin });
                // duplicate delivery of the same finalization, sometimes
                if g.chance(1, 8) {
                    b.push(Op::ServerFinish { st: Ref::via(st, pick_via(&mut g)), fin: Ref::via(f, pick_via(&mut g)) });
                }
                se.phase = 99;
            }
            _ => {}
        }
        if se.phase == 99 {
            sess.remove(si);
        } else {
            sess[si] = se;
        }
    }
    b.w
}

//! C07 — sessions are fresh and isolated under adversarial message routing.
//! The core simulation: a bounded population (5 registration records, 4 live
//! client sessions + one old replayed session, 2 credential identifiers) and
//! EVERY routing inside it — each request to every (record, credential id),
//! each response to every pending client, each finalization to every pending
//! server session — executed in a seeded random topological order.

use std::collections::{BTreeMap, BTreeSet};

use crate::driver::{Ctx, Report};
use crate::gen::*;
use crate::rng::Gen;
use crate::suite::{Grp, SuiteOps, ID_SUITES, SIM_SUITES};
use crate::world::{run_world, IdSpec, Op, Ref, RunResult, Tape, Violation, WIds, World};

pub const OWN: &[&str] = &[
    "client_accept_unexpected",
    "client_reject_unexpected",
    "server_accept_unexpected",
    "server_reject_unexpected",
    "key_mismatch",
    "duplicate_session_key",
    "step_failed",
    "schedule_dependence",
    "liveness_after_faults",
];

/// seeded random topological order of `ops` (an op is ready when every item it
/// reads has been produced)
pub fn topo_shuffle(g: &mut Gen, ops: Vec<Op>) -> Vec<Op> {
    let mut produced: BTreeSet<u32> = BTreeSet::new();
    let mut pending: Vec<Op> = ops;
    let mut out = Vec::with_capacity(pending.len());
    while !pending.is_empty() {
        let ready: Vec<usize> = (0..pending.len())
            .filter(|i| pending[*i].ins().iter().all(|d| produced.contains(d)))
            .collect();
        if ready.is_empty() {
            // dangling inputs (consumers of something that may not exist): emit in order
            let op = pending.remove(0);
            for o in op.outs() {
                produced.insert(o);
            }
            out.push(op);
            continue;
        }
        let k = *g.pick(&ready);
        let op = pending.remove(k);
        for o in op.outs() {
            produced.insert(o);
        }
        out.push(op);
    }
    out
}

pub struct Pop {
    pub world: World,
    pub n_adversarial: usize,
    pub n_liveness_logins: usize,
}

/// `sample`: None = every routing; Some(k) = keep about 1/k of the client
/// finishes (expensive suites in the quick tier)
pub fn gen_world(seed: u64, idx: u64, s: &dyn SuiteOps, shared_tapes: bool, sample: Option<usize>) -> Pop {
    let mut g = Gen::new(seed, &format!("gen/c07/{}/{}", s.name(), idx));
    let mut b = WB::new(s, seed, idx, if shared_tapes { "c07 all routings, shared RNGs, seeded order" } else { "c07 all routings, label tapes (schedule-independence pass)" });
    let fam = s.ksf_family();
    let setup = b.setup(false);
    let pw1 = small_pw(&mut g);
    let mut pw2 = small_pw(&mut g);
    if pw2 == pw1 {
        pw2.push(b'2');
    }
    let mut pw3 = pw1.clone();
    pw3.push(b'!');
    // credential identifiers: short, or twins sharing a long prefix / differing in whitespace
    let (cred_a, cred_b) = if g.chance(1, 3) {
        let pairs = crate::checks::c05::cred_pairs(&mut g);
        let twins: Vec<&(Vec<u8>, Vec<u8>)> = pairs.iter().filter(|p| p.0 != p.1 && p.0.len() < 1000).collect();
        let p = *g.pick(&twins);
        (p.0.clone(), p.1.clone())
    } else {
        let a = small_cred(&mut g);
        let mut b2 = small_cred(&mut g);
        if b2 == a {
            b2.push(1);
        }
        (a, b2)
    };
    let ksf = gen_ksf(&mut g, fam, true);
    // identities: shared by everybody, or per user (then a cross-user routing also disagrees on identities)
    let idmode = g.below(5);
    let uid = |name: &[u8]| -> WIds {
        match idmode {
            0 => WIds::default(),
            1 => WIds { client: IdSpec::Bytes(b"client".to_vec().into()), server: IdSpec::Bytes(b"server".to_vec().into()) },
            2 => WIds { client: IdSpec::Bytes(name.to_vec().into()), server: IdSpec::Absent },
            3 => WIds { client: IdSpec::Absent, server: IdSpec::Bytes(b"server".to_vec().into()) },
            _ => WIds { client: IdSpec::Bytes(name.to_vec().into()), server: IdSpec::Bytes(b"server".to_vec().into()) },
        }
    };
    let names: [&[u8]; 4] = [b"alice", b"bob", b"carol", b"alice"];
    let ids = uid(b"alice");
    let ctx = if g.chance(1, 2) { Some(b"c07".to_vec()) } else { None };
    let mut prelude: Vec<Op> = vec![];
    let mut regs = vec![];
    for (k, (pw, cred)) in [(&pw1, &cred_a), (&pw2, &cred_b), (&pw1, &cred_b), (&pw1, &cred_a)].into_iter().enumerate() {
        let (r, ops) = b.reg_ops(&mut g, setup, pw, pw, cred, uid(names[k]), ksf.clone(), false);
        prelude.extend(ops);
        regs.push((r.record, pw.clone(), cred.clone(), uid(names[k])));
    }
    // an earlier day: one complete honest login of u1, later replayed
    let (old, ops) = b.login_ops(&mut g, setup, Some(regs[0].0), &pw1, &pw1, &cred_a, ctx.clone(), ctx.clone(), ids.clone(), ids.clone(), ksf.clone(), false);
    prelude.extend(ops);
    for o in prelude {
        b.push(o);
    }
    let ctape = |b: &mut WB, what: &str| if shared_tapes { Tape::Shared("client".into()) } else { b.tape(what) };
    let stape = |b: &mut WB, what: &str| if shared_tapes { Tape::Shared("server".into()) } else { b.tape(what) };
    // live client sessions
    let mut adv: Vec<Op> = vec![];
    let mut clients: Vec<(u32, u32, Vec<u8>, WIds)> = vec![]; // (state, request, password, the identities this user expects)
    for (pw, who) in [(&pw1, 0usize), (&pw2, 1), (&pw3, 0), (&pw1, 2)] {
        let st = b.id();
        let msg = b.id();
        let tape = ctape(&mut b, "loginstart");
        adv.push(Op::LoginStart { st, msg, tape, pw: pw.clone().into() });
        clients.push((st, msg, pw.clone(), uid(names[who])));
    }
    // every request (4 live + the old one) -> every (record | none, cred)
    let mut requests: Vec<u32> = clients.iter().map(|c| c.1).collect();
    requests.push(old.req);
    let mut sessions: Vec<(u32, u32)> = vec![]; // (server state, response)
    let records: Vec<(Option<u32>, WIds)> = regs.iter().map(|r| (Some(r.0), r.3.clone())).chain([(None, uid(b"nobody"))]).collect();
    for rq in &requests {
        for (rec, rids) in &records {
            for cred in [&cred_a, &cred_b] {
                let st = b.id();
                let msg = b.id();
                let tape = stape(&mut b, "loginrespond");
                // the network is bytes: a third of the deliveries go through a codec
                let vq = if g.chance(1, 3) { via(&mut g) } else { crate::suite::Codec::Mem };
                let vr = if g.chance(1, 6) { via(&mut g) } else { crate::suite::Codec::Mem };
                adv.push(Op::LoginRespond { st, msg, tape, setup: Ref::mem(setup), record: rec.map(|r| Ref::via(r, vr)), req: Ref::via(*rq, vq), cred: cred.clone().into(), ctx: ctx.clone().map(Into::into), ids: rids.clone() });
                sessions.push((st, msg));
            }
        }
    }
    // every response (+ the old one) -> every pending client
    let mut responses: Vec<u32> = sessions.iter().map(|s| s.1).collect();
    responses.push(old.resp);
    let mut fins: Vec<u32> = vec![old.fin];
    let mut n = 0usize;
    for rs in &responses {
        for (cst, _, pw, cids) in &clients {
            n += 1;
            if let Some(k) = sample {
                if g.below(k) != 0 {
                    continue;
                }
            }
            let out = b.id();
            let vs = if g.chance(1, 4) { via(&mut g) } else { crate::suite::Codec::Mem };
            let vr = if g.chance(1, 3) { via(&mut g) } else { crate::suite::Codec::Mem };
            adv.push(Op::LoginFinish { out, st: Ref::via(*cst, vs), pw: pw.clone().into(), resp: Ref::via(*rs, vr), ctx: ctx.clone().map(Into::into), ids: cids.clone(), ksf: ksf.clone() });
            fins.push(out);
        }
    }
    let _ = n;
    // every finalization that may exist -> every pending server session (+ the old one)
    let mut sstates: Vec<u32> = sessions.iter().map(|s| s.0).collect();
    sstates.push(old.sst);
    for f in &fins {
        for st in &sstates {
            let vs = if g.chance(1, 8) { via(&mut g) } else { crate::suite::Codec::Mem };
            adv.push(Op::ServerFinish { st: Ref::via(*st, vs), fin: Ref::mem(*f) });
        }
    }
    let n_adv = adv.len();
    let mut g2 = Gen::new(seed, &format!("sched/c07/{}/{}", s.name(), idx));
    for o in topo_shuffle(&mut g2, adv) {
        b.push(o);
    }
    // faults stop: every registered user logs in honestly, in exactly four steps
    let mut nl = 0;
    for (rec, pw, cred, rids) in &regs {
        let (_, ops) = b.login_ops(&mut g, setup, Some(*rec), pw, pw, cred, ctx.clone(), ctx.clone(), rids.clone(), rids.clone(), ksf.clone(), false);
        for o in ops {
            b.push(o);
        }
        nl += 1;
    }
    Pop { world: b.w, n_adversarial: n_adv, n_liveness_logins: nl }
}

/// bounded liveness + (for label-tape worlds) schedule independence
pub fn judge(w: &World, r: &RunResult) -> Vec<Violation> {
    let mut v = vec![];
    // liveness: the last 4*k ops are honest logins; each must have completed
    let tail: Vec<(usize, &Op)> = w.ops.iter().enumerate().rev().take_while(|(_, o)| matches!(o, Op::LoginStart { .. } | Op::LoginRespond { .. } | Op::LoginFinish { .. } | Op::ServerFinish { .. })).collect();
    let mut k = 0;
    // walk back in groups of four as long as the group is a fresh honest login
    let mut idx = w.ops.len();
    while idx >= 4 {
        let grp = &w.ops[idx - 4..idx];
        let honest = matches!(&grp[0], Op::LoginStart { .. }) && matches!(&grp[1], Op::LoginRespond { .. }) && matches!(&grp[2], Op::LoginFinish { .. }) && matches!(&grp[3], Op::ServerFinish { .. });
        if !honest {
            break;
        }
        let ok = r.events[idx - 4..idx].iter().all(|e| !e.skipped && e.res.is_ok());
        if !ok && k < 4 {
            let first_bad = r.events[idx - 4..idx].iter().find(|e| e.skipped || e.res.is_err()).unwrap();
            v.push(Violation {
                clause: "liveness_after_faults",
                op: first_bad.op,
                detail: format!("after the adversarial phase an honest login did not complete in its four steps: {} -> {:?}", first_bad.name, first_bad.res.as_ref().err().map(|f| f.short())),
            });
        }
        k += 1;
        idx -= 4;
        if k >= 4 {
            break;
        }
    }
    let _ = tail;
    // schedule independence (only meaningful with label-derived tapes)
    let own_tapes = w.ops.iter().all(|o| match o {
        Op::NewSetup { tape, .. } | Op::RegStart { tape, .. } | Op::RegFinish { tape, .. } | Op::LoginStart { tape, .. } | Op::LoginRespond { tape, .. } => !matches!(tape, Tape::Shared(_)),
        _ => true,
    });
    if own_tapes && w.note.contains("schedule-independence") {
        let mut g = Gen::new(w.seed, &format!("resched/{}/{}", w.suite, w.index));
        let mut w2 = w.clone();
        w2.ops = topo_shuffle(&mut g, w.ops.clone());
        let r2 = run_world(&w2);
        let key = |o: &Op| serde_json::to_string(o).unwrap();
        let m1: BTreeMap<String, String> = w.ops.iter().zip(r.events.iter()).map(|(o, e)| (key(o), format!("{:?}", e.res))).collect();
        for (o, e) in w2.ops.iter().zip(r2.events.iter()) {
            let k = key(o);
            let got = format!("{:?}", e.res);
            if let Some(exp) = m1.get(&k) {
                if exp != &got {
                    v.push(Violation {
                        clause: "schedule_dependence",
                        op: e.op,
                        detail: format!("{}: output differs between two interleavings of the same world (label-derived tapes): {} vs {}", e.name, &exp[..exp.len().min(120)], &got[..got.len().min(120)]),
                    });
                    break;
                }
            }
        }
    }
    v
}

pub fn run(ctx: &Ctx) -> Report {
    let mut rep = Report::new(
        "per world: 1 server, records {u1(pw1,a), u2(pw2,b), u3(pw1,b), u1 re-registered(pw1,a), none}, credential ids {a,b}, an old complete u1 login (replay source), live client sessions {pw1, pw2, wrong pw, pw1}; every request (4 live + old) -> every (record|none, cred) = 50 server sessions; every response (50 + old) -> every pending client = 204 client finishes; every finalization that may exist -> every server session; executed in a seeded random topological order with one shared RNG per party (flavour A) or label tapes + a second interleaving compared output-by-output (flavour B); then faults stop and every registered user must complete one honest login in four steps. Oracle: Model A on every finish, key agreement, pairwise-distinct session keys. Quick samples 1/4 of the client finishes on the P-384/P-521 key-exchange groups",
    );
    let mut suites: Vec<&'static dyn SuiteOps> = SIM_SUITES.to_vec();
    if !ctx.quick() {
        suites.extend(ID_SUITES.iter().step_by(3));
    }
    let per = ctx.pick(2, 60);
    let mut jobs: Vec<(usize, u64)> = vec![];
    for si in 0..suites.len() {
        for k in 0..per {
            jobs.push((si, k as u64));
        }
    }
    let seed = ctx.seed;
    let quick = ctx.quick();
    let gen = |i: usize| {
        let (si, k) = jobs[i];
        let s = suites[si];
        let heavy = matches!(s.ke(), Grp::P384 | Grp::P521) || matches!(s.oprf(), Grp::P521);
        let sample = if quick && heavy { Some(4) } else { None };
        gen_world(seed, k, s, k % 2 == 0, sample).world
    };
    super::world_batch(ctx, &mut rep, jobs.len(), &gen, OWN, false, Some(&judge));
    rep.exhaustive = Some(false);
    rep
}

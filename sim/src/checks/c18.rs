//! C18 — externally held server keys are a transparent abstraction.
//! The same world is run with the static key held directly and behind the
//! `SecretKey` seam (`SimHsm`, raw-scalar and opaque-handle serialization) on
//! equal tapes; then the seam fails at every fallible call of every op.

use serde_json::json;

use crate::checks::c13::base_world;
use crate::driver::{fnv, par_map, Case, Ctx, Found, Report};
use crate::rng::Gen;
use crate::suite::{Codec, SuiteOps, ALL_CODECS, ID_SUITES, SIM_SUITES};
use crate::world::{run_world, Fault, Op, Ref, RunResult, Stats, Violation, World};

pub const OWN: &[&str] = &[
    "hsm_divergence",
    "hsm_forbidden_call",
    "seam_error_swallowed",
    "seam_error_wrong_kind",
    "reload_failed",
    "reload_changed_state",
    "panic",
];

const WK_HSM: u32 = 900_001; // setup created by new_with_key (external key)
const WK_TWIN: u32 = 900_002; // the same setup holding the key directly

fn set_hsm(w: &mut World, on: bool) {
    let with_key = w.ops.iter().any(|o| matches!(o, Op::NewSetupWithKey { .. }));
    for op in w.ops.iter_mut() {
        if with_key {
            // the server is the new_with_key setup (hsm run) or its direct twin
            if let Op::RegRespond { setup, .. } | Op::LoginRespond { setup, .. } = op {
                if let Ref::Item { id, .. } = setup {
                    *id = if on { WK_HSM } else { WK_TWIN };
                }
            }
            if let Op::Reload { id, .. } = op {
                if *id == WK_HSM || *id == WK_TWIN {
                    *id = if on { WK_HSM } else { WK_TWIN };
                }
            }
        } else if let Op::NewSetup { hsm, .. } = op {
            *hsm = on;
        }
    }
}

/// variant 3: the serving setup comes from `ServerSetup::new_with_key`
fn with_key_variant(base: &World) -> World {
    let mut w = base.clone();
    let Some(Op::NewSetup { out, .. }) = base.ops.first().cloned() else { return w };
    let mut ops = vec![base.ops[0].clone()];
    ops.push(Op::NewSetupWithKey { out: WK_HSM, tape: crate::world::Tape::Own("setup-with-key".into()), sk_from: out });
    ops.push(Op::TwinSetup { out: WK_TWIN, from: WK_HSM, hsm: false });
    ops.extend(base.ops[1..].iter().cloned().map(|mut o| {
        if let Op::Reload { id, .. } = &mut o {
            if *id == out {
                *id = WK_HSM; // the serving setup is the one that restarts
            }
        }
        o
    }));
    w.ops = ops;
    w
}

/// world variants: how the setup reaches each server op, plus permanent reloads
pub fn variant(base: &World, g: &mut Gen, kind: usize) -> World {
    let mut w = base.clone();
    match kind % 3 {
        0 => {} // all in memory
        1 => {
            for op in w.ops.iter_mut() {
                if let Op::RegRespond { setup, .. } | Op::LoginRespond { setup, .. } = op {
                    if let Ref::Item { via, .. } = setup {
                        *via = *g.pick(&ALL_CODECS);
                    }
                }
            }
        }
        _ => {
            let mut ops = vec![];
            for op in base.ops.iter() {
                ops.push(op.clone());
                if let Op::NewSetup { out, .. } = op {
                    ops.push(Op::Reload { id: *out, codec: *g.pick(&ALL_CODECS[1..]) });
                }
                if let Op::RegStore { .. } = op {
                    if let Some(Op::NewSetup { out, .. }) = base.ops.first() {
                        ops.push(Op::Reload { id: *out, codec: *g.pick(&ALL_CODECS[1..]) });
                    }
                }
            }
            w.ops = ops;
        }
    }
    w
}

pub fn compare(w: &World, direct: &RunResult, hsm: &RunResult) -> Vec<Violation> {
    let s = crate::suite::suite_by_name(&w.suite).unwrap();
    let l = s.lens();
    let mut v: Vec<Violation> = hsm
        .violations
        .iter()
        .filter(|x| matches!(x.clause, "panic" | "reload_changed_state" | "seam_error_swallowed" | "seam_error_wrong_kind"))
        .cloned()
        .collect();
    for (i, (d, h)) in direct.events.iter().zip(hsm.events.iter()).enumerate() {
        let same = match (&d.res, &h.res) {
            (Ok(a), Ok(b)) if d.name == "NewSetup" || (d.name == "Reload" && matches!(w.ops.get(i), Some(Op::Reload { .. }))) => {
                // stored setup: seed and fake key must be equal; the static-key slot is
                // the raw scalar (equal) or an opaque handle (by design different)
                a.len() == b.len()
                    && a.iter().zip(b.iter()).all(|(x, y)| {
                        if x.0 == "setup" && x.1 .0.len() == l.nh + 2 * l.nsk && y.1 .0.len() == x.1 .0.len() {
                            x.1 .0[..l.nh] == y.1 .0[..l.nh]
                                && x.1 .0[l.nh + l.nsk..] == y.1 .0[l.nh + l.nsk..]
                                && (w.knobs.hsm_handle || x.1 .0 == y.1 .0)
                        } else if x.0 == "stored" {
                            true // codec bytes of the setup: compared through the decoded native form below
                        } else {
                            x == y
                        }
                    })
            }
            (a, b) => a == b,
        };
        if !same {
            v.push(Violation {
                clause: "hsm_divergence",
                op: i,
                detail: format!("{} (op {i}): the server holding its key behind the external-key interface produced a different result than the one holding it directly ({}); handle_mode={}", d.name, match (&d.res, &h.res) {
                    (Ok(_), Ok(_)) => "outputs differ".to_string(),
                    (Ok(_), Err(f)) => format!("fails with {}", f.short()),
                    (Err(f), Ok(_)) => format!("succeeds, direct fails with {}", f.short()),
                    (Err(f), Err(g)) => format!("{} vs {}", g.short(), f.short()),
                }, w.knobs.hsm_handle),
            });
            break;
        }
        if let Err(f) = &h.res {
            if h.name == "Reload" {
                v.push(Violation { clause: "reload_failed", op: i, detail: format!("external-key setup could not be reloaded: {}", f.short()) });
            }
        }
        // only public_key / diffie_hellman (and clone) while serving from memory
        if matches!(w.ops.get(i), Some(Op::RegRespond { setup: Ref::Item { via: Codec::Mem, .. }, .. }) | Some(Op::LoginRespond { setup: Ref::Item { via: Codec::Mem, .. }, .. })) {
            let mem_slot = true;
            if mem_slot && hsm.events.iter().take(i).all(|e| e.name != "Reload") {
                if let Some(bad) = h.hsm_calls.iter().find(|c| !matches!(c.as_str(), "PublicKey" | "DiffieHellman" | "Clone")) {
                    v.push(Violation { clause: "hsm_forbidden_call", op: i, detail: format!("{}: the server called `{}` on the external key; only public_key and diffie_hellman are allowed while serving (calls: {:?})", h.name, bad, h.hsm_calls) });
                }
            }
        }
    }
    v
}

pub fn judge_world(w: &World) -> Vec<Violation> {
    let mut d = w.clone();
    set_hsm(&mut d, false);
    d.faults.clear();
    let mut h = w.clone();
    set_hsm(&mut h, true);
    if w.faults.is_empty() {
        compare(w, &run_world(&d), &run_world(&h))
    } else {
        run_world(&h)
            .violations
            .into_iter()
            .filter(|x| matches!(x.clause, "panic" | "seam_error_swallowed" | "seam_error_wrong_kind"))
            .collect()
    }
}

pub fn run(ctx: &Ctx) -> Report {
    let mut rep = Report::new(
        "per base world (setup, registration, real login, unknown-user login, second login; label tapes) x 3 delivery variants (memory / setup through a random codec before each server op / permanent reloads of the setup) x {raw-scalar, opaque-handle} key serialization: the direct-key and the SimHsm-backed runs must agree event by event (stored setup compared on seed, fake key and public key; static-key slot only in raw mode), and while serving from memory the seam may only see public_key / diffie_hellman / clone. Then for every op and every n <= the number of fallible seam calls that op made (public_key, diffie_hellman, deserialize), the n-th call fails: the op must return exactly LibraryError(Custom(HsmErr(n))) (or the serde codec's error carrying it), never Ok, never panic. distinct = (suite, variant, fault plan)",
    );
    rep.exhaustive = Some(true);
    let mut suites: Vec<&'static dyn SuiteOps> = SIM_SUITES.to_vec();
    if !ctx.quick() {
        suites.extend(ID_SUITES.iter().step_by(2));
    }
    let per = ctx.pick(2, 24);
    let mut jobs = vec![];
    for si in 0..suites.len() {
        for k in 0..per {
            jobs.push((si, k as u64));
        }
    }
    struct Out {
        evals: u64,
        shapes: Vec<u64>,
        found: Vec<Found>,
        stats: Stats,
        steps: u64,
        faults_planned: u64,
        sample: Option<serde_json::Value>,
    }
    let seed = ctx.seed;
    let outs = par_map(jobs.len(), ctx.threads, |ji| {
        let (si, k) = jobs[ji];
        let s = suites[si];
        let mut g = Gen::new(seed, &format!("gen/c18/{}/{}", s.name(), k));
        let base = base_world(seed, k, s, false);
        let mut o = Out { evals: 0, shapes: vec![], found: vec![], stats: Stats::default(), steps: 0, faults_planned: 0, sample: None };
        let mut push = |o: &mut Out, w: &World, vs: Vec<Violation>| {
            for v in vs {
                let opname = w.ops.get(v.op).map(|x| x.name()).unwrap_or("?");
                let sig = format!("{}:{}:{}", v.clause, opname, w.suite);
                if !o.found.iter().any(|f| f.signature == sig) {
                    o.found.push(Found { clause: v.clause.into(), detail: v.detail.clone(), signature: sig, case: Case::World(w.clone()) });
                }
            }
        };
        for kind in 0..4 {
            for handle in [false, true] {
                let mut w = if kind == 3 { with_key_variant(&variant(&base, &mut g, 2)) } else { variant(&base, &mut g, kind) };
                w.knobs.hsm_handle = handle;
                w.note = format!("c18 variant {kind} handle={handle}");
                let mut d = w.clone();
                set_hsm(&mut d, false);
                let mut h = w.clone();
                set_hsm(&mut h, true);
                let rd = run_world(&d);
                let rh = run_world(&h);
                o.evals += 2;
                o.steps += (rd.events.len() + rh.events.len()) as u64;
                o.stats.merge(&rh.stats);
                o.shapes.push(fnv(format!("{}|{}", w.suite, w.note).as_bytes()));
                push(&mut o, &h, compare(&w, &rd, &rh));
                if o.sample.is_none() {
                    o.sample = Some(json!({"suite": w.suite, "variant": w.note, "ops": h.ops.iter().map(|x| x.name()).collect::<Vec<_>>(), "seam_calls_per_op": rh.events.iter().map(|e| e.hsm_calls.clone()).collect::<Vec<_>>()}));
                }
                // fail every fallible call of every op
                for (i, e) in rh.events.iter().enumerate() {
                    let fallible = e.hsm_calls.iter().filter(|c| matches!(c.as_str(), "PublicKey" | "DiffieHellman" | "Deserialize")).count();
                    for n in 1..=fallible {
                        let mut wf = h.clone();
                        wf.faults = vec![Fault::HsmFailAt { op: i, call: n }];
                        // the failing key returns its own error type, or one of the library's error values
                        wf.knobs.hsm_err_flavour = ((k as usize + kind + i + n + handle as usize) % 5) as u8;
                        wf.note = format!("{} fault HsmFailAt op={i} call={n} error={}", w.note, crate::seams::hsm_err_name(wf.knobs.hsm_err_flavour, n));
                        let rf = run_world(&wf);
                        o.evals += 1;
                        o.faults_planned += 1;
                        o.steps += rf.events.len() as u64;
                        o.stats.merge(&rf.stats);
                        o.shapes.push(fnv(format!("{}|{}|{}|{}", w.suite, kind, e.name, n).as_bytes()));
                        let mut vs: Vec<Violation> = rf.violations.iter().filter(|x| matches!(x.clause, "panic" | "seam_error_swallowed" | "seam_error_wrong_kind")).cloned().collect();
                        if !rf.events.get(i).map(|e| e.fault_fired).unwrap_or(false) {
                            vs.push(Violation { clause: "hsm_divergence", op: i, detail: format!("a failure planned at seam call {n} of {} did not fire on the second run: the op is not deterministic in its seam calls", e.name) });
                        }
                        push(&mut o, &wf, vs);
                    }
                }
                // the key service fails while a stored setup is being loaded whose OTHER key slot
                // (the stand-in key, never behind the interface) is unusable as well: the caller
                // must still be told about the key service's failure
                let stored = rh.events.iter().zip(h.ops.iter()).find_map(|(e, op)| match (op, &e.res) {
                    (Op::NewSetup { .. } | Op::NewSetupWithKey { .. }, Ok(outs)) => outs.iter().find(|x| x.0 == "setup").map(|x| x.1 .0.clone()),
                    _ => None,
                });
                let lens = s.lens();
                if let (Some(mut bytes), Some(pos)) = (stored, h.ops.iter().position(|op| matches!(op, Op::LoginRespond { .. }))) {
                    if bytes.len() == lens.nh + 2 * lens.nsk {
                        for b in bytes[lens.nh + lens.nsk..].iter_mut() {
                            *b = 0;
                        }
                        let mut wz = h.clone();
                        wz.ops.truncate(pos + 1);
                        if let Some(Op::LoginRespond { setup, .. }) = wz.ops.last_mut() {
                            *setup = Ref::Lit { kind: crate::suite::Kind::SetupHsm, codec: Codec::Native, bytes: bytes.into() };
                        }
                        for n in 1..=2 {
                            let mut wf = wz.clone();
                            wf.faults = vec![Fault::HsmFailAt { op: pos, call: n }];
                            wf.knobs.hsm_err_flavour = ((k as usize + kind + n) % 5) as u8;
                            wf.note = format!("{} stored setup with an unusable stand-in key, key service failing at call {n} of the load", w.note);
                            let rf = run_world(&wf);
                            o.evals += 1;
                            o.faults_planned += 1;
                            let fired = rf.events.get(pos).map(|e| e.fault_fired).unwrap_or(false);
                            if fired {
                                let vs: Vec<Violation> = rf.violations.iter().filter(|x| matches!(x.clause, "panic" | "seam_error_swallowed" | "seam_error_wrong_kind")).cloned().collect();
                                push(&mut o, &wf, vs);
                            }
                        }
                    }
                }
            }
        }
        o
    });
    let mut planned = 0;
    for o in outs {
        rep.evaluations += o.evals;
        rep.worlds += o.evals;
        rep.steps += o.steps;
        planned += o.faults_planned;
        for s in o.shapes {
            rep.shapes.insert(s);
        }
        rep.stats.merge(&o.stats);
        for f in o.found {
            if rep.found.iter().filter(|x| x.clause == f.clause).count() < 4 {
                rep.add_found(f);
            }
        }
        if let Some(s) = o.sample {
            rep.sample(s);
        }
    }
    rep.extra.insert("seam_faults_planned".into(), json!(planned));
    for s in &suites {
        rep.suites.insert(s.name().into());
    }
    rep
}

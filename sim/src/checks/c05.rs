//! C05 — identities, context and credential identifier are bound, injectively.
//! Triples (registration, server login, client login) of parameters decided by
//! Model A: agreement of *effective* values must succeed, any disagreement
//! must fail — including boundary-shifted splits of one concatenation,
//! crafted collisions for hypothetical short/absent length prefixes, explicit
//! spellings of the defaults, one-sided identities and credential-id pairs.

use crate::driver::{Ctx, Report};
use crate::gen::*;
use crate::hexs::Hex;
use crate::rng::Gen;
use crate::suite::{SuiteOps, ID_SUITES, SIM_SUITES};
use crate::world::{IdSpec, WIds, World};

pub const OWN: &[&str] = &[
    "client_accept_unexpected",
    "client_reject_unexpected",
    "server_accept_unexpected",
    "server_reject_unexpected",
    "key_mismatch",
];

#[derive(Clone, Debug)]
struct P3 {
    ctx: Option<Vec<u8>>,
    idu: IdSpec,
    ids: IdSpec,
}

fn bytes(b: &[u8]) -> IdSpec {
    IdSpec::Bytes(Hex(b.to_vec()))
}

/// credential-identifier pairs (registration, login)
pub fn cred_pairs(g: &mut Gen) -> Vec<(Vec<u8>, Vec<u8>)> {
    let long = g.bytes(200);
    let mut long2 = long.clone();
    *long2.last_mut().unwrap() ^= 1;
    let mut long3 = long.clone();
    long3[130] ^= 0x80;
    let huge = g.bytes(70000);
    let mut huge2 = huge.clone();
    huge2[69999] ^= 1;
    vec![
        (b"alice".to_vec(), b"alice".to_vec()),
        (vec![], vec![]),
        (long.clone(), long.clone()),
        (b"alice".to_vec(), b"alicf".to_vec()),
        (b"alice".to_vec(), b"alic".to_vec()),
        (b"alic".to_vec(), b"alice".to_vec()),
        (vec![], vec![0]),
        (vec![0], vec![]),
        (vec![], b" ".to_vec()),
        (b"alice".to_vec(), b"alice\n".to_vec()),
        (b" alice".to_vec(), b"alice".to_vec()),
        (b"alice".to_vec(), b"ALICE".to_vec()),
        (b"alice\0".to_vec(), b"alice".to_vec()),
        (long.clone(), long2),
        (long.clone(), long3),
        (long[..64].to_vec(), long[..65].to_vec()),
        (long[..57].to_vec(), long[..58].to_vec()),
        (long[..121].to_vec(), long[..122].to_vec()),
        (huge.clone(), huge2),
        (b"aliceOprfKey".to_vec(), b"alice".to_vec()),
        // a long identifier and its digest (pre-hashing of inputs longer than a hash block)
        (long.clone(), crate::spec::HashAlg::Sha256.hash(&[&long])),
        (long.clone(), crate::spec::HashAlg::Sha384.hash(&[&long])),
        (long.clone(), crate::spec::HashAlg::Sha512.hash(&[&long])),
        (huge.clone(), crate::spec::HashAlg::Sha512.hash(&[&huge])),
        (vec![9], vec![10]),
        // the same hash-block-sized segments in another order, or doubled (equal under any
        // commutative / self-cancelling folding of a long identifier)
        ([&long[..128], &huge[..128]].concat(), [&huge[..128], &long[..128]].concat()),
        ([&long[..64], &huge[..64], &huge[64..128]].concat(), [&huge[..64], &long[..64], &huge[64..128]].concat()),
        ([&long[..128], &huge[..128], &huge[..128]].concat(), long[..128].to_vec()),
    ]
}

pub fn gen_world(seed: u64, idx: u64, s: &dyn SuiteOps, mode: usize) -> World {
    let mut g = Gen::new(seed, &format!("gen/c05/{}/{}", s.name(), idx));
    let mut b = WB::new(s, seed, idx, &format!("c05 binding mode {mode}"));
    let fam = s.ksf_family();
    let setup = b.setup(false);
    let pw = small_pw(&mut g);
    let ksf = gen_ksf(&mut g, fam, true);
    let push_all = |b: &mut WB, ops: Vec<crate::world::Op>| {
        for o in ops {
            b.push(o)
        }
    };
    match mode % 4 {
        0 => {
            // boundary-shifted splits of one concatenation w = ctx ‖ id_u ‖ id_s
            let wl = 3 + g.below(10);
            let w = g.bytes(wl);
            let cuts: Vec<(usize, usize)> = (0..=wl).flat_map(|a| (a..=wl).map(move |b| (a, b))).collect();
            let reg_cut = *g.pick(&cuts);
            let reg_ids = WIds { client: bytes(&w[reg_cut.0..reg_cut.1]), server: bytes(&w[reg_cut.1..]) };
            let cred = small_cred(&mut g);
            let (r, ops) = b.reg_ops(&mut g, setup, &pw, &pw, &cred, reg_ids, ksf.clone(), false);
            push_all(&mut b, ops);
            // all cut pairs when small, sampled otherwise
            let mut pairs: Vec<((usize, usize), (usize, usize))> = vec![];
            for _ in 0..10 {
                pairs.push((reg_cut, *g.pick(&cuts)));
                pairs.push((*g.pick(&cuts), reg_cut));
                pairs.push((*g.pick(&cuts), *g.pick(&cuts)));
            }
            pairs.push((reg_cut, reg_cut));
            for (sc, cc) in pairs {
                let p = |c: (usize, usize)| (Some(w[..c.0].to_vec()), WIds { client: bytes(&w[c.0..c.1]), server: bytes(&w[c.1..]) });
                let (sctx, sids) = p(sc);
                let (cctx, cids) = p(cc);
                let (_, ops) = b.login_ops(&mut g, setup, Some(r.record), &pw, &pw, &cred, sctx, cctx, sids, cids, ksf.clone(), false);
                push_all(&mut b, ops);
            }
        }
        1 => {
            // class triples incl. defaults, explicit-default spellings, empty, one-sided
            let cred = small_cred(&mut g);
            let classes_u = |g: &mut Gen, rec: Option<u32>| -> IdSpec {
                match g.below(10) {
                    0 | 1 => IdSpec::Absent,
                    2 => rec.map(IdSpec::ClientPkOf).unwrap_or(IdSpec::Absent),
                    // another party's key: an explicit identity of exactly Npk bytes that is
                    // *not* the default (seeded change R8C05-B)
                    9 => IdSpec::ServerPkOf(setup),
                    3 => bytes(b""),
                    4 => bytes(b"alice"),
                    5 => bytes(b"alicf"),
                    6 => bytes(b"alice\n"),
                    7 => bytes(b" alice"),
                    _ => bytes(&[0u8; 2]),
                }
            };
            let classes_s = |g: &mut Gen, setup: u32, rec: Option<u32>| -> IdSpec {
                match g.below(9) {
                    0 | 1 => IdSpec::Absent,
                    2 => IdSpec::ServerPkOf(setup),
                    8 => rec.map(IdSpec::ClientPkOf).unwrap_or(IdSpec::Absent),
                    3 => bytes(b""),
                    4 => bytes(b"srv"),
                    5 => bytes(b"srw"),
                    6 => bytes(b"srv "),
                    _ => bytes(b"alice"),
                }
            };
            let reg_ids = WIds { client: classes_u(&mut g, None), server: classes_s(&mut g, setup, None) };
            let (r, ops) = b.reg_ops(&mut g, setup, &pw, &pw, &cred, reg_ids.clone(), ksf.clone(), false);
            push_all(&mut b, ops);
            let ctxs: [Option<Vec<u8>>; 5] = [None, Some(vec![]), Some(b"ctx".to_vec()), Some(b"ctx\0".to_vec()), Some(b"cty".to_vec())];
            for k in 0..24 {
                let (sids, cids) = if k % 4 == 0 {
                    // agreeing with registration (possibly respelled)
                    let respell_u = |g: &mut Gen, s: &IdSpec| match s {
                        IdSpec::Absent if g.chance(1, 2) => IdSpec::ClientPkOf(r.record),
                        x => x.clone(),
                    };
                    let respell_s = |g: &mut Gen, s: &IdSpec| match s {
                        IdSpec::Absent if g.chance(1, 2) => IdSpec::ServerPkOf(setup),
                        IdSpec::ServerPkOf(_) if g.chance(1, 2) => IdSpec::Absent,
                        x => x.clone(),
                    };
                    (
                        WIds { client: respell_u(&mut g, &reg_ids.client), server: respell_s(&mut g, &reg_ids.server) },
                        WIds { client: respell_u(&mut g, &reg_ids.client), server: respell_s(&mut g, &reg_ids.server) },
                    )
                } else if k % 4 == 1 || k % 4 == 3 {
                    // client and server agree with each other but differ from registration in
                    // exactly one identity (the other one is kept as registered)
                    let mut x = reg_ids.clone();
                    if g.chance(1, 2) {
                        loop {
                            let c = classes_u(&mut g, Some(r.record));
                            if c != reg_ids.client && !(reg_ids.client == IdSpec::Absent && matches!(c, IdSpec::ClientPkOf(_))) {
                                x.client = c;
                                break;
                            }
                        }
                    } else {
                        loop {
                            let c = classes_s(&mut g, setup, Some(r.record));
                            let same_default = matches!((&reg_ids.server, &c), (IdSpec::Absent, IdSpec::ServerPkOf(_)) | (IdSpec::ServerPkOf(_), IdSpec::Absent));
                            if c != reg_ids.server && !same_default {
                                x.server = c;
                                break;
                            }
                        }
                    }
                    if k % 4 == 3 {
                        // one-sided: one party keeps the registered spelling, only the other
                        // one names the differing identity (seeded change R8C05-A: a client
                        // naming a wrong identity against a record sealed under the defaults)
                        if g.chance(1, 2) { (reg_ids.clone(), x) } else { (x, reg_ids.clone()) }
                    } else {
                        (x.clone(), x)
                    }
                } else {
                    (
                        WIds { client: classes_u(&mut g, Some(r.record)), server: classes_s(&mut g, setup, Some(r.record)) },
                        WIds { client: classes_u(&mut g, Some(r.record)), server: classes_s(&mut g, setup, Some(r.record)) },
                    )
                };
                let (sctx, cctx) = if k % 2 == 0 || k % 4 == 3 {
                    let c = g.pick(&ctxs).clone();
                    (c.clone(), if c.as_deref() == Some(&[][..]) && g.chance(1, 2) { None } else { c })
                } else {
                    (g.pick(&ctxs).clone(), g.pick(&ctxs).clone())
                };
                let (_, ops) = b.login_ops(&mut g, setup, Some(r.record), &pw, &pw, &cred, sctx, cctx, sids, cids, ksf.clone(), false);
                push_all(&mut b, ops);
            }
        }
        2 => {
            // length boundaries 255/256/65535 and crafted collisions for a
            // hypothetical 1-byte (mod 256) or missing length prefix
            let cred = small_cred(&mut g);
            let a: Vec<u8> = {
                let mut a = g.bytes(256);
                a[0] = 40; // = len(id_s') mod 256 of the crafted twin below
                a
            };
            let bsrv = g.bytes(7);
            // twin under a 1-byte prefix: id_u' = "" ; id_s' = A[1..] ‖ len(B) ‖ B  (len = 255+1+7 = 263 = 7 mod 256 -> set a[0] accordingly)
            let mut a1 = a.clone();
            a1[0] = (255 + 1 + bsrv.len()) as u8;
            let mut twin_s = a1[1..].to_vec();
            twin_s.push(bsrv.len() as u8);
            twin_s.extend_from_slice(&bsrv);
            let variants: Vec<(Vec<u8>, Vec<u8>)> = vec![
                (a1.clone(), bsrv.clone()),
                (vec![], twin_s.clone()),
                (g.bytes(255), bsrv.clone()),
                (g.bytes(65535), bsrv.clone()),
                (a1[..255].to_vec(), {
                    let mut x = vec![a1[255]];
                    x.extend_from_slice(&bsrv);
                    x
                }),
            ];
            // beyond the limit: the same over-long context on both sides, and twins that
            // would coincide if the length prefix saturated, wrapped or were dropped
            let x = g.bytes(65536);
            let u255 = g.bytes(255);
            let mut x01 = x.clone();
            x01.push(1);
            let mut ffu = vec![0xffu8];
            ffu.extend_from_slice(&u255);
            let over: Vec<(Vec<u8>, Vec<u8>, Vec<u8>, Vec<u8>)> = vec![
                (x.clone(), u255.clone(), x.clone(), u255.clone()),
                (x01.clone(), u255.clone(), x.clone(), ffu.clone()),
                (x[..65535].to_vec(), u255.clone(), x.clone(), u255.clone()),
            ];
            let rv = g.below(variants.len());
            let reg_ids = WIds { client: bytes(&variants[rv].0), server: bytes(&variants[rv].1) };
            let (r, ops) = b.reg_ops(&mut g, setup, &pw, &pw, &cred, reg_ids, ksf.clone(), false);
            push_all(&mut b, ops);
            if idx % 2 == 0 {
                let (r0, ops) = b.reg_ops(&mut g, setup, &pw, &pw, &cred, WIds { client: bytes(&u255), server: bytes(&bsrv) }, ksf.clone(), false);
                push_all(&mut b, ops);
                let (r1, ops) = b.reg_ops(&mut g, setup, &pw, &pw, &cred, WIds { client: bytes(&ffu), server: bytes(&bsrv) }, ksf.clone(), false);
                push_all(&mut b, ops);
                for (sctx, su, cctx, cu) in &over {
                    for rec in [r0.record, r1.record] {
                        let sids = WIds { client: bytes(su), server: bytes(&bsrv) };
                        let cids = WIds { client: bytes(cu), server: bytes(&bsrv) };
                        let (_, ops) = b.login_ops(&mut g, setup, Some(rec), &pw, &pw, &cred, Some(sctx.clone()), Some(cctx.clone()), sids, cids, ksf.clone(), false);
                        push_all(&mut b, ops);
                    }
                }
            }
            if (idx / 4) % 2 == 1 {
                // identities beyond the limit against the default and against their own
                // 65535-byte prefix: at registration, at the server, at the client, on both
                let biglen = if g.chance(1, 2) { 65536 } else { 70000 };
                let big = g.bytes(biglen);
                let pre = big[..65535].to_vec();
                let (rd, ops) = b.reg_ops(&mut g, setup, &pw, &pw, &cred, WIds::default(), ksf.clone(), false);
                push_all(&mut b, ops);
                let client_side = g.chance(1, 2);
                let wid = |x: &[u8]| if client_side { WIds { client: bytes(x), server: IdSpec::Absent } } else { WIds { client: IdSpec::Absent, server: bytes(x) } };
                let (rp, ops) = b.reg_ops(&mut g, setup, &pw, &pw, &cred, wid(&pre), ksf.clone(), false);
                push_all(&mut b, ops);
                // registration under the over-long identity itself must be refused
                let (_, ops) = b.reg_ops(&mut g, setup, &pw, &pw, &cred, wid(&big), ksf.clone(), false);
                push_all(&mut b, ops);
                for (rec, other) in [(rd.record, WIds::default()), (rp.record, wid(&pre))] {
                    for (sids, cids) in [(wid(&big), other.clone()), (other.clone(), wid(&big)), (wid(&big), wid(&big))] {
                        let (_, ops) = b.login_ops(&mut g, setup, Some(rec), &pw, &pw, &cred, None, None, sids, cids, ksf.clone(), false);
                        push_all(&mut b, ops);
                    }
                }
            }
            for sv in 0..variants.len() {
                for cv in [rv, sv, g.below(variants.len())] {
                    let sids = WIds { client: bytes(&variants[sv].0), server: bytes(&variants[sv].1) };
                    let cids = WIds { client: bytes(&variants[cv].0), server: bytes(&variants[cv].1) };
                    let big = g.bytes(65535);
                    let (sctx, cctx) = match g.below(4) {
                        0 => (Some(big.clone()), Some(big)),
                        1 => (Some(big.clone()), Some(big[..65534].to_vec())),
                        2 => (Some(g.bytes(256)), Some(g.bytes(256))),
                        _ => (Some(b"c".to_vec()), Some(b"c".to_vec())),
                    };
                    let (_, ops) = b.login_ops(&mut g, setup, Some(r.record), &pw, &pw, &cred, sctx, cctx, sids, cids, ksf.clone(), false);
                    push_all(&mut b, ops);
                }
            }
        }
        _ => {
            // credential identifier pairs: registration under one, server login under the other
            let pairs = cred_pairs(&mut g);
            let take = 6;
            let start = (crate::driver::fnv(s.name().as_bytes()) as usize % pairs.len() + idx as usize * take) % pairs.len();
            for k in 0..take {
                let (cr, cl) = pairs[(start + k) % pairs.len()].clone();
                let (r, ops) = b.reg_ops(&mut g, setup, &pw, &pw, &cr, WIds::default(), ksf.clone(), false);
                push_all(&mut b, ops);
                let (_, ops) = b.login_ops(&mut g, setup, Some(r.record), &pw, &pw, &cl, None, None, WIds::default(), WIds::default(), ksf.clone(), false);
                push_all(&mut b, ops);
                let (_, ops) = b.login_ops(&mut g, setup, Some(r.record), &pw, &pw, &cr, None, None, WIds::default(), WIds::default(), ksf.clone(), false);
                push_all(&mut b, ops);
            }
        }
    }
    b.w
}

pub fn run(ctx: &Ctx) -> Report {
    let mut rep = Report::new(
        "4 world modes per suite: (0) boundary-shifted splits of one string w into (ctx, id_u, id_s) at registration / server login / client login; (1) class triples over absent / explicit-default spelling / empty / short / near-miss identities incl. one-sided ones, and contexts absent/empty/ctx/ctx\\0/cty; (2) lengths 255/256/65535, identities of 65536/70000 bytes against the default and against their 65535-byte prefix (registration / server / client / both), and crafted twins that would collide under a 1-byte (mod 256) or missing length prefix; (3) 28 credential-identifier pairs (equal, prefix, last-byte, whitespace/NUL/case twins, 57/58, 64/65, 121/122, 200-byte and 70000-byte tails, long identifier vs its SHA-256/384/512 digest, hash-block-sized segments permuted / doubled) at registration vs login. Model A decides accept/reject; non-trivial = world contains a predicted rejection; distinct = hash of (suite, op/outcome sequence)",
    );
    let mut suites: Vec<&'static dyn SuiteOps> = SIM_SUITES.to_vec();
    suites.extend(ID_SUITES.iter().step_by(ctx.pick(5, 2)));
    let per = ctx.pick(8, 400);
    let mut jobs: Vec<(usize, u64)> = vec![];
    for si in 0..suites.len() {
        for k in 0..per {
            jobs.push((si, k as u64));
        }
    }
    let seed = ctx.seed;
    let gen = |i: usize| {
        let (si, k) = jobs[i];
        gen_world(seed, k, suites[si], k as usize)
    };
    super::world_batch(ctx, &mut rep, jobs.len(), &gen, OWN, false, None);
    rep
}

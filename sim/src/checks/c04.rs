//! C04 — the client completes login only on the server's genuine response.
//! For honest logins, an enumerated family of altered responses is delivered
//! to the pending client state: substitution at every offset, XOR-cancelling
//! pairs, transpositions, field splices/re-randomisation, foreign responses,
//! reflection, wrong lengths.

use crate::driver::{Ctx, Report};
use crate::gen::*;
use crate::layout::{fields, FieldTy};
use crate::rng::Gen;
use crate::suite::{Codec, Kind, SuiteOps, ID_SUITES, SIM_SUITES};
use crate::world::{run_world, Op, Ref, WIds, World};

pub const OWN: &[&str] = &["client_accept_unexpected", "client_reject_unexpected"];

fn out_bytes(w: &World, r: &crate::world::RunResult, id: u32, name: &str) -> Option<Vec<u8>> {
    for (e, op) in r.events.iter().zip(w.ops.iter()) {
        if op.outs().contains(&id) {
            if let Ok(outs) = &e.res {
                // "msg"/"state"/"fin"/... : pick by name when the op has several outputs
                return outs.iter().find(|(n, _)| *n == name).map(|(_, h)| h.0.clone());
            }
        }
    }
    None
}

/// `chunk`/`nchunks`: which slice of the offset range this world enumerates
/// (0 = the structured family instead of per-offset substitutions).
pub fn gen_world(seed: u64, idx: u64, s: &dyn SuiteOps, chunk: usize, nchunks: usize, all_values: bool) -> World {
    // sessions depend on (suite, idx) only — every chunk attacks the same logins
    let mut g = Gen::new(seed, &format!("gen/c04/{}/{}", s.name(), idx));
    let mut b = WB::new(s, seed, idx, &format!("c04 response family chunk {chunk}/{nchunks}"));
    let fam = s.ksf_family();
    let lens = s.lens();
    let setup = b.setup(false);
    let setup2 = b.setup(false);
    let pw1 = small_pw(&mut g);
    let mut pw2 = small_pw(&mut g);
    if pw2 == pw1 {
        pw2.push(b'2');
    }
    let cred = small_cred(&mut g);
    let ksf = gen_ksf(&mut g, fam, true);
    let explicit = g.chance(1, 2);
    let ids = if explicit {
        WIds { client: crate::world::IdSpec::Bytes(b"alice".to_vec().into()), server: crate::world::IdSpec::Bytes(b"srv".to_vec().into()) }
    } else {
        WIds::default()
    };
    let mut push_all = |b: &mut WB, ops: Vec<Op>| {
        for o in ops {
            b.push(o)
        }
    };
    let (r1, ops) = b.reg_ops(&mut g, setup, &pw1, &pw1, &cred, ids.clone(), ksf.clone(), false);
    push_all(&mut b, ops);
    let (r2, ops) = b.reg_ops(&mut g, setup, &pw2, &pw2, &cred, ids.clone(), ksf.clone(), false);
    push_all(&mut b, ops);
    let (r3, ops) = b.reg_ops(&mut g, setup2, &pw1, &pw1, &cred, ids.clone(), ksf.clone(), false);
    push_all(&mut b, ops);
    let ctx = Some(b"ctx".to_vec());
    // the attacked login (client finish is issued last, so the state is still pending)
    let (l, mut ops) = b.login_ops(&mut g, setup, Some(r1.record), &pw1, &pw1, &cred, ctx.clone(), ctx.clone(), ids.clone(), ids.clone(), ksf.clone(), false);
    let genuine_tail: Vec<Op> = ops.split_off(2);
    push_all(&mut b, ops);
    // donors: other responses to splice from
    let mut donors: Vec<(u32, &'static str)> = vec![];
    // same user, another session (another request)
    let (d, mut ops) = b.login_ops(&mut g, setup, Some(r1.record), &pw1, &pw1, &cred, ctx.clone(), ctx.clone(), ids.clone(), ids.clone(), ksf.clone(), false);
    ops.truncate(2);
    push_all(&mut b, ops);
    donors.push((d.resp, "same_user_other_session"));
    // the same request answered again (fresh server randomness)
    let again_st = b.id();
    let again = b.id();
    let tape = b.tape("loginrespond");
    b.push(Op::LoginRespond { st: again_st, msg: again, tape, setup: Ref::mem(setup), record: Some(Ref::mem(r1.record)), req: Ref::mem(l.req), cred: cred.clone().into(), ctx: ctx.clone().map(Into::into), ids: ids.clone() });
    donors.push((again, "same_request_second_response"));
    // the same request answered for another user / no record / another server
    // a server holding the same OPRF seed and the stolen password file under another static key
    let thief = b.id();
    b.push(Op::SpliceSetup { out: thief, seed_from: setup, key_from: setup2 });
    for (rec, su, name) in [(Some(r2.record), setup, "other_user"), (None, setup, "fake_record"), (Some(r3.record), setup2, "other_server"), (Some(r1.record), thief, "same_seed_other_static_key")] {
        let st = b.id();
        let msg = b.id();
        let tape = b.tape("loginrespond");
        b.push(Op::LoginRespond { st, msg, tape, setup: Ref::mem(su), record: rec.map(Ref::mem), req: Ref::mem(l.req), cred: cred.clone().into(), ctx: ctx.clone().map(Into::into), ids: ids.clone() });
        donors.push((msg, name));
    }
    // phase 1: learn bytes
    let r = run_world(&b.w);
    let Some(genuine) = out_bytes(&b.w, &r, l.resp, "msg") else { return b.w };
    let req_bytes = out_bytes(&b.w, &r, l.req, "msg").unwrap_or_default();
    let donor_bytes: Vec<(Vec<u8>, &'static str)> = donors.iter().filter_map(|(id, n)| out_bytes(&b.w, &r, *id, "msg").map(|x| (x, *n))).collect();
    let fl = fields(Kind::CredResp, &lens);
    let mut cands: Vec<Vec<u8>> = vec![];
    let n = genuine.len();
    if chunk == 0 {
        // whole foreign responses
        for (d, _) in &donor_bytes {
            cands.push(d.clone());
        }
        // field splices: each field, and each pair of fields, from each donor
        for (d, _) in &donor_bytes {
            for (i, f) in fl.iter().enumerate() {
                let mut x = genuine.clone();
                x[f.off..f.off + f.len].copy_from_slice(&d[f.off..f.off + f.len]);
                cands.push(x.clone());
                for f2 in fl.iter().skip(i + 1) {
                    let mut y = x.clone();
                    y[f2.off..f2.off + f2.len].copy_from_slice(&d[f2.off..f2.off + f2.len]);
                    cands.push(y);
                }
            }
        }
        // re-randomised fields (byte fields: random; element fields: another valid element taken from a donor is above)
        for f in &fl {
            if f.ty == FieldTy::Bytes {
                for _ in 0..4 {
                    let mut x = genuine.clone();
                    x[f.off..f.off + f.len].copy_from_slice(&g.bytes(f.len));
                    cands.push(x);
                }
            }
        }
        // reflection: beta := the client's own blinded element
        if req_bytes.len() >= lens.noe {
            let mut x = genuine.clone();
            x[..lens.noe].copy_from_slice(&req_bytes[..lens.noe]);
            cands.push(x);
        }
        // wrong lengths
        for len in [0usize, 1, n - 1, n + 1, n + 64, lens.noe, n - lens.nh] {
            let mut x = genuine.clone();
            x.resize(len, 0xA5);
            cands.push(x);
        }
        // XOR-cancelling pairs and transpositions inside every byte field
        for f in &fl {
            if f.ty == FieldTy::Bytes {
                for _ in 0..24 {
                    let (i, j) = (f.off + g.below(f.len), f.off + g.below(f.len));
                    if i != j {
                        let d = 1 + g.below(255) as u8;
                        let mut x = genuine.clone();
                        x[i] ^= d;
                        x[j] ^= d;
                        cands.push(x);
                    }
                }
                for _ in 0..12 {
                    let i = f.off + g.below(f.len - 1);
                    let mut x = genuine.clone();
                    x.swap(i, i + 1);
                    cands.push(x);
                }
                let mut x = genuine.clone();
                x[f.off..f.off + f.len].rotate_left(f.len / 2);
                cands.push(x);
                let mut x = genuine.clone();
                for b in x[f.off..f.off + f.len].iter_mut() {
                    *b = 0;
                }
                cands.push(x);
            }
        }
        // every proper prefix / suffix of each byte field (nonces, masked response, MAC) kept and
        // the rest of the field set to 00 / FF
        for f in fl.iter().filter(|f| matches!(f.ty, crate::layout::FieldTy::Bytes)) {
            for k in 0..f.len {
                for fill in [0u8, 0xFF] {
                    let mut x = genuine.clone();
                    for b in x[f.off + k..f.off + f.len].iter_mut() {
                        *b = fill;
                    }
                    cands.push(x);
                    let mut x = genuine.clone();
                    for b in x[f.off..f.off + f.len - k].iter_mut() {
                        *b = fill;
                    }
                    cands.push(x);
                }
            }
        }
        // every value of the tag / leading byte and of the last byte of each group-element field
        for f in fl.iter().filter(|f| !matches!(f.ty, crate::layout::FieldTy::Bytes)) {
            for o in [f.off, f.off + f.len - 1] {
                for d in 1..=255u8 {
                    let mut x = genuine.clone();
                    x[o] ^= d;
                    cands.push(x);
                }
            }
        }
    } else {
        let per = n.div_ceil(nchunks);
        let lo = (chunk - 1) * per;
        for off in lo..(lo + per).min(n) {
            if all_values {
                for d in 1..=255u8 {
                    let mut x = genuine.clone();
                    x[off] ^= d;
                    cands.push(x);
                }
            } else {
                for bit in 0..8 {
                    let mut x = genuine.clone();
                    x[off] ^= 1 << bit;
                    cands.push(x);
                }
                let mut x = genuine.clone();
                let mut d = g.below(256) as u8;
                if d.count_ones() <= 1 {
                    d = 0x5b;
                }
                x[off] ^= d;
                cands.push(x);
            }
        }
    }
    // the response as a deployment may carry it: through bincode / JSON. One substitution per
    // offset of that encoding (XOR 07 turns a SEC1 tag 02/03 into 05/04; digits are moved by 3)
    if chunk == 0 {
        if let Ok(item) = s.decode(Kind::CredResp, Codec::Native, &genuine) {
            for codec in [Codec::Bincode, Codec::Json] {
                let Ok(enc) = s.encode(&item, codec) else { continue };
                let stride = if all_values { 1 } else if codec == Codec::Json { 3 } else { 1 };
                let first = g.below(stride);
                for off in (first..enc.len()).step_by(stride) {
                    let mut x = enc.clone();
                    if codec == Codec::Json {
                        if !x[off].is_ascii_digit() {
                            continue;
                        }
                        x[off] = b'0' + (x[off] - b'0' + 3) % 10;
                    } else {
                        x[off] ^= 0x07;
                    }
                    let out = b.id();
                    b.push(Op::LoginFinish { out, st: Ref::mem(l.cst), pw: pw1.clone().into(), resp: Ref::Lit { kind: Kind::CredResp, codec, bytes: x.into() }, ctx: ctx.clone().map(Into::into), ids: ids.clone(), ksf: ksf.clone() });
                }
            }
        }
    }
    for x in cands {
        if x == genuine {
            continue;
        }
        let out = b.id();
        b.push(Op::LoginFinish { out, st: Ref::mem(l.cst), pw: pw1.clone().into(), resp: Ref::lit(Kind::CredResp, x), ctx: ctx.clone().map(Into::into), ids: ids.clone(), ksf: ksf.clone() });
    }
    // the genuine response last, through bytes: must still be accepted
    let mut tail = genuine_tail;
    if let Some(Op::LoginFinish { st, resp, .. }) = tail.get_mut(0) {
        *st = Ref::via(l.cst, Codec::Native);
        *resp = Ref::via(l.resp, Codec::Native);
    }
    push_all(&mut b, tail);
    b.w
}

pub fn run(ctx: &Ctx) -> Report {
    let mut rep = Report::new(
        "per sampled honest login (3 registrations, 2 server setups, donors: other session of the same user, a second response to the same request, other user, fake record, other server, a server with the same OPRF seed and the same password file under another static key): chunk 0 = whole foreign responses, every single-field and field-pair splice from every donor, 4 re-randomisations, zeroing, rotation, 24 XOR-cancelling byte pairs and 12 adjacent transpositions per byte field, reflection (beta := own blinded element), 7 wrong lengths, every proper prefix/suffix of each byte field padded with 00/FF, all 255 other values of the first and last byte of both group-element fields, and one substitution per offset of the response's bincode and JSON encodings (delivered through that codec); chunks 1..k = substitution at EVERY offset of the response (quick: all 8 single-bit flips + 1 seeded multi-bit value per offset; thorough: all 255 values per offset, i.e. exhaustive in offset x value); the genuine response is delivered last through native bytes and must be accepted. non-trivial = world contains a predicted rejection; mutated bytes that canonicalise to the genuine response are skipped (alias_skipped) — aliases are C10's business",
    );
    rep.exhaustive = Some(true);
    let mut suites: Vec<&'static dyn SuiteOps> = SIM_SUITES.to_vec();
    if !ctx.quick() {
        suites.extend(ID_SUITES.iter().step_by(4));
    }
    let nchunks = ctx.pick(4, 32);
    let logins = ctx.pick(1, 2);
    let all_values = !ctx.quick();
    let mut jobs: Vec<(usize, u64, usize)> = vec![];
    for si in 0..suites.len() {
        for k in 0..logins {
            for c in 0..=nchunks {
                jobs.push((si, k as u64, c));
            }
        }
    }
    let seed = ctx.seed;
    let gen = |i: usize| {
        let (si, k, c) = jobs[i];
        gen_world(seed, k, suites[si], c, nchunks, all_values)
    };
    super::world_batch(ctx, &mut rep, jobs.len(), &gen, OWN, false, None);
    rep
}

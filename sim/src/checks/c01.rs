//! C01 — honest registration + login always agree on keys.
//! The simulator's fault-free configuration: honest routing only (messages and
//! states still travel in memory or through any codec, and sessions of several
//! users interleave), all parameter classes, all 44 suite instantiations.

use crate::driver::{Ctx, Report};
use crate::gen::*;
use crate::rng::Gen;
use crate::suite::{all_suites, KsfFamily, SuiteOps};
use crate::world::{IdSpec, Op, Violation, WIds, World};

pub const OWN: &[&str] = &[
    "step_failed",
    "client_reject_unexpected",
    "server_reject_unexpected",
    "key_mismatch",
    "export_key_mismatch",
    "login_server_pk",
    "reg_server_pk",
    "reload_changed_state",
    "honest_login_incomplete",
];

pub fn gen_world(seed: u64, idx: u64, s: &dyn SuiteOps, cover: usize) -> World {
    let mut g = Gen::new(seed, &format!("gen/c01/{}/{}", s.name(), idx));
    let mut b = WB::new(s, seed, idx, "c01 honest flows");
    let fam = s.ksf_family();
    let hsm = g.chance(1, 8);
    let setup = b.setup(hsm);
    let users = 1 + g.below(3);
    let mut threads = vec![];
    for u in 0..users {
        // the covering slot walks every class of every parameter for user 0
        let (pwc, credc, idc, idsc, ctxc) = if u == 0 {
            (cover % 12, (cover / 2) % 6, cover % 7, (cover / 3) % 7, cover % 4)
        } else {
            (g.below(9), g.below(5), g.below(7), g.below(7), g.below(3))
        };
        let pw = gen_pw(&mut g, pwc);
        let cred = gen_cred(&mut g, credc);
        let lid_c = gen_logical_id(&mut g, idc);
        let lid_s = gen_logical_id(&mut g, idsc);
        let ksf = gen_ksf(&mut g, fam, u > 0);
        let reg_ids = WIds {
            client: match &lid_c {
                LogicalId::Default => IdSpec::Absent,
                LogicalId::Bytes(x) => IdSpec::Bytes(x.clone().into()),
            },
            server: spell_server(&mut g, &lid_s, setup),
        };
        let (r, mut ops) = b.reg_ops(&mut g, setup, &pw, &pw, &cred, reg_ids, ksf.clone(), true);
        let logins = if fam == KsfFamily::Argon2 { 1 } else { 1 + g.below(3) };
        for k in 0..logins {
            let cc = if u == 0 && k == 0 { ctxc } else { g.below(3) };
            let ctx = gen_ctx(&mut g, cc);
            let sids = WIds { client: spell_client(&mut g, &lid_c, r.record), server: spell_server(&mut g, &lid_s, setup) };
            let cids = WIds { client: spell_client(&mut g, &lid_c, r.record), server: spell_server(&mut g, &lid_s, setup) };
            let k2 = respell_ksf(&mut g, &ksf, fam);
            let sctx = spell_ctx(&mut g, &ctx);
            let cctx = spell_ctx(&mut g, &ctx);
            let (_, mut lops) = b.login_ops(&mut g, setup, Some(r.record), &pw, &pw, &cred, sctx, cctx, sids, cids, k2, true);
            // "every random tape" includes correlated ones: now and then client and server
            // draw from identical tapes (e.g. both seeded alike in a test bed)
            if g.chance(1, 8) {
                let shared = match &lops[0] {
                    Op::LoginStart { tape, .. } => Some(tape.clone()),
                    _ => None,
                };
                if let (Some(t), Some(Op::LoginRespond { tape, .. })) = (shared, lops.get_mut(1)) {
                    *tape = t;
                }
            }
            ops.extend(lops);
        }
        // degenerate but legal tapes: an op now and then starts its tape with zeros / 0xFF
        for op in ops.iter_mut() {
            if g.chance(1, 16) {
                let fill = if g.chance(1, 2) { 0u8 } else { 0xFF };
                let n = *g.pick(&[32usize, 48, 64, 66, 96]);
                match op {
                    Op::RegStart { tape, .. } | Op::RegFinish { tape, .. } | Op::LoginStart { tape, .. } | Op::LoginRespond { tape, .. } => {
                        if let crate::world::Tape::Own(l) = tape.clone() {
                            *tape = crate::world::Tape::Scripted(l, vec![fill; n].into());
                        }
                    }
                    _ => {}
                }
            }
        }
        threads.push(ops);
    }
    b.interleave(&mut g, threads);
    b.w
}

/// every honest login must run all four steps to completion
fn judge_complete(w: &World, r: &crate::world::RunResult) -> Vec<Violation> {
    let logins = w.ops.iter().filter(|o| o.name() == "LoginStart").count();
    let done = r.server_done.len();
    if done < logins && r.violations.is_empty() {
        vec![Violation {
            clause: "honest_login_incomplete",
            op: w.ops.len(),
            detail: format!("{logins} honest logins started, only {done} completed on the server side"),
        }]
    } else {
        vec![]
    }
}

pub fn run(ctx: &Ctx) -> Report {
    let mut rep = Report::new(
        "worlds of 1-3 users, honest routing, seeded interleaving, every message/state delivered in memory or through native/bincode/JSON bytes; parameter classes (password 0..65535 x 6 content classes, credential id 0..70000, identities absent/explicit-default/empty/5/255/256/65535, context absent/empty/9/256/65535, KSF absent/explicit) walked by a covering slot; distinct = hash of (suite, op/outcome sequence); every world is non-trivial for C01 because the honest run IS the property",
    );
    let suites = all_suites();
    let per = ctx.pick(36, 2000);
    let per_argon = ctx.pick(4, 60);
    let mut jobs: Vec<(usize, u64)> = vec![];
    for (si, s) in suites.iter().enumerate() {
        let n = if s.ksf_family() == KsfFamily::Argon2 { per_argon } else { per };
        for k in 0..n {
            jobs.push((si, k as u64));
        }
    }
    let seed = ctx.seed;
    let gen = |i: usize| {
        let (si, k) = jobs[i];
        gen_world(seed, k, suites[si], k as usize)
    };
    super::world_batch(ctx, &mut rep, jobs.len(), &gen, OWN, true, Some(&judge_complete));
    rep.assumptions.push("the > 65535-byte cases belong to C12; C01 stays within the encodable limit".into());
    rep
}

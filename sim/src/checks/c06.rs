//! C06 — the password file is bound to the server's static key.
//! A record registered at S is served from S' = (same OPRF seed, other static
//! key), built through the public decoder; the client must refuse, and the
//! public key reported at registration/login must be the setup's own.

use crate::driver::{Ctx, Report};
use crate::gen::*;
use crate::rng::Gen;
use crate::suite::{SuiteOps, ID_SUITES, SIM_SUITES};
use crate::world::{IdSpec, Op, WIds, World};

pub const OWN: &[&str] = &[
    "client_accept_unexpected",
    "client_reject_unexpected",
    "reg_server_pk",
    "login_server_pk",
    "server_accept_unexpected",
];

pub fn gen_world(seed: u64, idx: u64, s: &dyn SuiteOps) -> World {
    let mut g = Gen::new(seed, &format!("gen/c06/{}/{}", s.name(), idx));
    let mut b = WB::new(s, seed, idx, "c06 stolen file served under another static key");
    let fam = s.ksf_family();
    let hsm = g.chance(1, 3);
    let s_real = b.setup(hsm);
    let s_other = b.setup(false);
    // S' : seed (and fake key) of the real server, static key of another server / a fresh one
    let s_thief = b.id();
    b.push(Op::SpliceSetup { out: s_thief, seed_from: s_real, key_from: s_other });
    let pw = small_pw(&mut g);
    let cred = small_cred(&mut g);
    let ksf = gen_ksf(&mut g, fam, true);
    // identities: so that only the key differs. Modes: default / explicit-default
    // spellings, both explicit, server-only, client-only, long (> one hash block)
    let idmode = g.below(6);
    let (lu, ls) = (100 + g.below(200), 100 + g.below(200));
    let long_u = g.bytes(lu);
    let long_s = g.bytes(ls);
    let explicit = idmode == 1;
    let mk = |g: &mut Gen, rec: Option<u32>, setup: u32| -> WIds {
        let b = |x: &[u8]| IdSpec::Bytes(x.to_vec().into());
        match idmode {
            1 => WIds { client: b(b"alice"), server: b(b"server.example") },
            2 => WIds { client: IdSpec::Absent, server: b(b"server.example") },
            3 => WIds { client: b(b"alice"), server: IdSpec::Absent },
            4 => WIds { client: b(&long_u), server: b(&long_s) },
            5 => WIds { client: IdSpec::Absent, server: b(&long_s) },
            _ => WIds {
                client: match rec {
                    Some(r) if g.chance(1, 3) => IdSpec::ClientPkOf(r),
                    _ => IdSpec::Absent,
                },
                server: if g.chance(1, 3) { IdSpec::ServerPkOf(setup) } else { IdSpec::Absent },
            },
        }
    };
    let reg_ids = mk(&mut g, None, s_real);
    let (r, mut ops) = b.reg_ops(&mut g, s_real, &pw, &pw, &cred, reg_ids, ksf.clone(), true);
    // degenerate but legal tape at the sealing step: the envelope nonce is all zeros / all 0xFF
    // (seeded change R8C06-A: the envelope tag was not looked at for the all-zero nonce)
    if g.chance(1, 8) {
        let fill = if g.chance(2, 3) { 0u8 } else { 0xFF };
        for op in ops.iter_mut() {
            if let Op::RegFinish { tape, .. } = op {
                if let crate::world::Tape::Own(l) = tape.clone() {
                    *tape = crate::world::Tape::Scripted(l, vec![fill; 32].into());
                }
            }
        }
    }
    for o in ops {
        b.push(o);
    }
    let ctx = if g.chance(1, 2) { Some(b"app".to_vec()) } else { None };
    let mut threads = vec![];
    for (setup, n) in [(s_real, 2), (s_thief, 5), (s_other, 1)] {
        for _ in 0..n {
            // the thief spells identities as the real server would (its own key as default is the point)
            let which = if explicit || g.chance(1, 2) { s_real } else { setup };
            let sids = mk(&mut g, Some(r.record), which);
            let cids = mk(&mut g, Some(r.record), s_real);
            let (_, ops) = b.login_ops(&mut g, setup, Some(r.record), &pw, &pw, &cred, ctx.clone(), ctx.clone(), sids, cids, ksf.clone(), true);
            threads.push(ops);
        }
    }
    b.interleave(&mut g, threads);
    // the key service rotates the key behind an externally held setup: the setup still
    // caches (and must keep reporting) its own public key; what it serves from now on is
    // another key, so new registrations there can no longer log in — and must not be told
    // a key that is not the setup's
    if hsm && g.chance(1, 2) {
        b.push(Op::RotateHsmKey { to: s_other });
        let (r2, ops) = b.reg_ops(&mut g, s_real, &pw, &pw, b"after-rotation", WIds::default(), ksf.clone(), false);
        for o in ops {
            b.push(o);
        }
        for rec in [r.record, r2.record] {
            let old = rec == r.record;
            let c: Vec<u8> = if old { cred.clone() } else { b"after-rotation".to_vec() };
            let sids = if old { mk(&mut g, Some(rec), s_real) } else { WIds::default() };
            let cids = if old { mk(&mut g, Some(rec), s_real) } else { WIds::default() };
            let (_, ops) = b.login_ops(&mut g, s_real, Some(rec), &pw, &pw, &c, ctx.clone(), ctx.clone(), sids, cids, ksf.clone(), false);
            for o in ops {
                b.push(o);
            }
        }
    }
    if hsm && g.chance(1, 2) {
        b.w.knobs.hsm_handle = true;
    }
    b.w
}

pub fn run(ctx: &Ctx) -> Report {
    let mut rep = Report::new(
        "per world: real setup S (direct or SimHsm key), another server T, thief S' = ServerSetup::deserialize(seed(S) ‖ sk(T) ‖ fake_sk(S)); one registration at S (explicit or default/explicit-default identities); interleaved logins served by S (must succeed and report S's key), by S' and by T (client must refuse); Model A + reported server_s_pk postconditions; in half of the SimHsm worlds the key service then rotates the key behind the setup (`RotateHsmKey`): later registrations must still be told the setup's own key and logins served under the rotated key must be refused. non-trivial = contains a predicted rejection",
    );
    let mut suites: Vec<&'static dyn SuiteOps> = SIM_SUITES.to_vec();
    suites.extend(ID_SUITES.iter().step_by(ctx.pick(4, 1)));
    let per = ctx.pick(40, 1200);
    let mut jobs: Vec<(usize, u64)> = vec![];
    for si in 0..suites.len() {
        for k in 0..per {
            jobs.push((si, k as u64));
        }
    }
    let seed = ctx.seed;
    let gen = |i: usize| {
        let (si, k) = jobs[i];
        gen_world(seed, k, suites[si])
    };
    super::world_batch(ctx, &mut rep, jobs.len(), &gen, OWN, false, None);
    rep
}

//! C14 — the OPRF is oblivious and keyed per credential.
//! Relational check over recorded histories: what the client derives (masking
//! key) is a function of (password, OPRF seed, credential id, KSF) only — never
//! of the blind; the server's evaluation is a function of (seed, credential
//! id, request) only — never of its static key, a password file, or a reload.

use std::collections::BTreeMap;

use crate::checks::c05::cred_pairs;
use crate::driver::{Ctx, Report};
use crate::gen::*;
use crate::rng::Gen;
use crate::seams::simksf_eval;
use crate::spec::{grp, SuiteB};
use crate::suite::{suite_by_name, Codec, KsfArg, KsfFamily, SuiteOps, ID_SUITES, SIM_SUITES};
use crate::world::{ksf_effective, Id, Op, Ref, RunResult, Violation, WIds, World};

pub const OWN: &[&str] = &[
    "masking_key_depends_on_blind",
    "masking_key_not_separated",
    "masking_key_spec",
    "request_repeats",
    "evaluation_not_function_of_inputs",
    "evaluation_collides",
];

pub fn gen_world(seed: u64, idx: u64, s: &dyn SuiteOps) -> World {
    let mut g = Gen::new(seed, &format!("gen/c14/{}/{}", s.name(), idx));
    let mut b = WB::new(s, seed, idx, "c14 OPRF relations");
    let fam = s.ksf_family();
    let s1 = b.setup(false);
    let s2 = b.setup(false);
    let s3 = b.id();
    b.push(Op::SpliceSetup { out: s3, seed_from: s1, key_from: s2 });
    let pw = small_pw(&mut g);
    let mut pw2 = pw.clone();
    pw2.push(b'.');
    let pairs = cred_pairs(&mut g);
    let (c1, c2) = pairs[(crate::driver::fnv(s.name().as_bytes()) as usize % pairs.len() + idx as usize) % pairs.len()].clone();
    let ksf = gen_ksf(&mut g, fam, true);
    // (setup, password, cred)
    let plan: Vec<(u32, &Vec<u8>, &Vec<u8>)> = vec![(s1, &pw, &c1), (s1, &pw, &c1), (s1, &pw, &c2), (s2, &pw, &c1), (s1, &pw2, &c1), (s3, &pw, &c1), (s3, &pw, &c2)];
    let mut threads = vec![];
    let mut first_req = None;
    for (su, p, c) in plan {
        let (r, mut ops) = b.reg_ops(&mut g, su, p, p, c, WIds::default(), ksf.clone(), false);
        if first_req.is_none() {
            first_req = Some(r.req);
        }
        // the server also answers the very first request under every setup / through a reload
        if let Some(rq) = first_req {
            let out = b.id();
            ops.push(Op::RegRespond { out, setup: Ref::via(su, if g.chance(1, 2) { Codec::Mem } else { *g.pick(&crate::suite::BYTE_CODECS) }), req: Ref::mem(rq), cred: c.clone().into() });
        }
        // a login under this record and, for the same request, without a record and under the key-swapped setup
        let (l, mut lops) = b.login_ops(&mut g, su, Some(r.record), p, p, c, None, None, WIds::default(), WIds::default(), ksf.clone(), false);
        lops.truncate(2);
        for (su2, rec) in [(su, None), (s3, Some(r.record)), (s1, None)] {
            let st = b.id();
            let msg = b.id();
            let tape = b.tape("loginrespond");
            lops.push(Op::LoginRespond { st, msg, tape, setup: Ref::mem(su2), record: rec.map(Ref::mem), req: Ref::mem(l.req), cred: c.clone().into(), ctx: None, ids: WIds::default() });
        }
        ops.extend(lops);
        threads.push(ops);
    }
    b.interleave(&mut g, threads);
    // phase 2: the blinded element of every login request is also sent down the
    // registration path under the same (setup, credential id): both server entry
    // points must compute the same function of (seed, credential id, request)
    let r = crate::world::run_world(&b.w);
    let noe = s.lens().noe;
    let mut extra = vec![];
    let mut req_bytes: BTreeMap<Id, Vec<u8>> = BTreeMap::new();
    for (op, e) in b.w.ops.iter().zip(r.events.iter()) {
        if let (Op::LoginStart { msg, .. }, Ok(outs)) = (op, &e.res) {
            if let Some((_, m)) = outs.iter().find(|(n, _)| *n == "msg") {
                req_bytes.insert(*msg, m.0[..noe.min(m.0.len())].to_vec());
            }
        }
    }
    for op in b.w.ops.iter() {
        if let Op::LoginRespond { setup, req: Ref::Item { id, .. }, cred, .. } = op {
            if let Some(bytes) = req_bytes.get(id) {
                extra.push((setup.clone(), bytes.clone(), cred.clone()));
            }
        }
    }
    for (setup, bytes, cred) in extra {
        let out = b.id();
        b.push(Op::RegRespond { out, setup, req: Ref::lit(crate::suite::Kind::RegReq, bytes), cred });
    }
    b.w
}

pub fn judge(w: &World, r: &RunResult) -> Vec<Violation> {
    let s = suite_by_name(&w.suite).unwrap();
    let l = s.lens();
    let bspec = SuiteB { oprf: s.oprf(), ke: s.ke() };
    let fam = s.ksf_family();
    let mut v = vec![];
    let mut seed_of: BTreeMap<Id, Vec<u8>> = BTreeMap::new();
    let mut seed_bytes: BTreeMap<Id, Vec<u8>> = BTreeMap::new();
    let mut bytes: BTreeMap<Id, Vec<u8>> = BTreeMap::new();
    let mut pw_of_state: BTreeMap<Id, Vec<u8>> = BTreeMap::new();
    let mut resp_key: BTreeMap<Id, (Vec<u8>, Vec<u8>)> = BTreeMap::new(); // RegResp id -> (seed identity, cred)
    let mut resp_seed_bytes: BTreeMap<Id, Vec<u8>> = BTreeMap::new();
    // (inputs, masking key, op)
    let mut regs: Vec<((Vec<u8>, Vec<u8>, Vec<u8>, Vec<u8>, String), Vec<u8>, usize)> = vec![];
    // ((seed, cred, request), evaluation, op)
    let mut evals: Vec<((Vec<u8>, Vec<u8>, Vec<u8>), Vec<u8>, usize)> = vec![];
    let mut requests: Vec<(Vec<u8>, usize, String)> = vec![];
    let id = |r: &Ref| match r {
        Ref::Item { id, .. } => Some(*id),
        _ => None,
    };
    for (i, (op, e)) in w.ops.iter().zip(r.events.iter()).enumerate() {
        let Ok(outs) = &e.res else { continue };
        if e.skipped {
            continue;
        }
        let get = |n: &str| outs.iter().find(|(x, _)| *x == n).map(|(_, h)| h.0.clone());
        match op {
            // the seed is identified by the setup that drew it (a user sees setups, not
            // seeds): independently created servers must have unrelated OPRFs, a spliced
            // setup inherits the seed of its source
            Op::NewSetup { out, .. } => {
                if get("setup").is_some() {
                    seed_of.insert(*out, (i as u64).to_be_bytes().to_vec());
                    if let Some(st) = get("setup") {
                        seed_bytes.insert(*out, st[..l.nh].to_vec());
                    }
                }
            }
            Op::SpliceSetup { out, seed_from, .. } => {
                if get("setup").is_some() {
                    if let Some(sd) = seed_of.get(seed_from).cloned() {
                        seed_of.insert(*out, sd);
                    }
                    if let Some(st) = get("setup") {
                        seed_bytes.insert(*out, st[..l.nh].to_vec());
                    }
                }
            }
            Op::RegStart { st, msg, pw, tape } | Op::LoginStart { st, msg, pw, tape } => {
                if let Some(m) = get("msg") {
                    requests.push((m[..l.noe].to_vec(), i, format!("{tape:?}")));
                    bytes.insert(*msg, m);
                }
                pw_of_state.insert(*st, pw.0.clone());
            }
            Op::RegRespond { out, setup, req, cred } => {
                let lit = match req {
                    Ref::Lit { bytes, .. } => Some(bytes.0.clone()),
                    _ => None,
                };
                if let (Some(m), Some(sd), Some(rq)) = (get("msg"), id(setup).and_then(|x| seed_of.get(&x)), lit.as_ref().or_else(|| id(req).and_then(|x| bytes.get(&x)))) {
                    evals.push(((sd.clone(), cred.0.clone(), rq[..l.noe].to_vec()), m[..l.noe].to_vec(), i));
                    resp_key.insert(*out, (sd.clone(), cred.0.clone()));
                    if let Some(sb) = id(setup).and_then(|x| seed_bytes.get(&x)) {
                        resp_seed_bytes.insert(*out, sb.clone());
                    }
                }
            }
            Op::LoginRespond { setup, req, cred, .. } => {
                if let (Some(m), Some(sd), Some(rq)) = (get("msg"), id(setup).and_then(|x| seed_of.get(&x)), id(req).and_then(|x| bytes.get(&x))) {
                    evals.push(((sd.clone(), cred.0.clone(), rq[..l.noe].to_vec()), m[..l.noe].to_vec(), i));
                }
            }
            Op::RegFinish { st, pw, resp, ksf, .. } => {
                if let (Some(up), Some(ps), Some((sd, cr))) = (get("upload"), id(st).and_then(|x| pw_of_state.get(&x)), id(resp).and_then(|x| resp_key.get(&x))) {
                    let k = format!("{:?}", ksf_effective(ksf, fam));
                    regs.push(((ps.clone(), pw.0.clone(), sd.clone(), cr.clone(), k), up[l.npk..l.npk + l.nh].to_vec(), i));
                    // the unblinded formula: no blind anywhere
                    if ps == &pw.0 {
                        let spec = (|| {
                            let sdb = id(resp).and_then(|x| resp_seed_bytes.get(&x))?;
                            let key = bspec.oprf_key(sdb, cr)?;
                            let dst = [b"HashToGroup-".as_slice(), &crate::spec::oprf_context_string(bspec.oprf)].concat();
                            let p = grp::hash_to_group(bspec.oprf, &[&pw.0], &dst);
                            let n = grp::mul(bspec.oprf, &p, &key)?;
                            let y = bspec.h().hash(&[&crate::spec::i2osp(pw.0.len(), 2), &pw.0, &crate::spec::i2osp(n.len(), 2), &n, b"Finalize"]);
                            let st = match ksf_effective(ksf, fam) {
                                KsfArg::Sim(t) => simksf_eval(t, &y, y.len()),
                                KsfArg::Identity => y.clone(),
                                _ => return None,
                            };
                            let rwd = bspec.randomized_pwd(&y, &st);
                            Some(bspec.h().hkdf_expand(&rwd, &[b"MaskingKey"], l.nh))
                        })();
                        if let Some(mk) = spec {
                            if mk != up[l.npk..l.npk + l.nh] {
                                v.push(Violation { clause: "masking_key_spec", op: i, detail: format!("masking key {} is not Expand(Extract(F(k, pw) ‖ KSF(F(k, pw))), \"MaskingKey\") = {} computed without any blind", hex::encode(&up[l.npk..l.npk + l.nh]), hex::encode(&mk)) });
                            }
                        }
                    }
                }
            }
            _ => {}
        }
    }
    for a in 0..regs.len() {
        for b in a + 1..regs.len() {
            let same_in = regs[a].0 == regs[b].0;
            let same_out = regs[a].1 == regs[b].1;
            if same_in && !same_out {
                v.push(Violation { clause: "masking_key_depends_on_blind", op: regs[b].2, detail: format!("registrations at op {} and op {} have the same password, seed, credential id and KSF but different masking keys: the result depends on the blinding randomness", regs[a].2, regs[b].2) });
            }
            if !same_in && same_out {
                v.push(Violation { clause: "masking_key_not_separated", op: regs[b].2, detail: format!("registrations at op {} and op {} differ in password / seed / credential id / KSF ({}) yet share the masking key {}", regs[a].2, regs[b].2, if regs[a].0 .3 != regs[b].0 .3 { format!("credential ids {} vs {}", crate::hexs::abbrev(&regs[a].0 .3), crate::hexs::abbrev(&regs[b].0 .3)) } else { "other input".into() }, hex::encode(&regs[a].1)) });
            }
        }
    }
    for a in 0..evals.len() {
        for b in a + 1..evals.len() {
            let same_in = evals[a].0 == evals[b].0;
            let same_out = evals[a].1 == evals[b].1;
            if same_in && !same_out {
                v.push(Violation { clause: "evaluation_not_function_of_inputs", op: evals[b].2, detail: format!("ops {} and {} evaluate the same request under the same seed and credential id but return different elements (static key, record or reload leaked in)", evals[a].2, evals[b].2) });
            }
            if !same_in && same_out {
                v.push(Violation { clause: "evaluation_collides", op: evals[b].2, detail: format!("ops {} and {} differ in seed / credential id / request yet return the same evaluation element", evals[a].2, evals[b].2) });
            }
        }
        if v.len() > 6 {
            break;
        }
    }
    for a in 0..requests.len() {
        for b in a + 1..requests.len() {
            if requests[a].0 == requests[b].0 && requests[a].2 != requests[b].2 {
                v.push(Violation { clause: "request_repeats", op: requests[b].1, detail: format!("the blinded element at op {} repeats the one at op {} although the tapes are independent", requests[b].1, requests[a].1) });
            }
        }
    }
    v.truncate(8);
    v
}

pub fn run(ctx: &Ctx) -> Report {
    let mut rep = Report::new(
        "per world: setups S1, S2 and S3 = (seed of S1, static key of S2); 7 registrations (same inputs twice on independent tapes; other credential id from 20 pairs incl. prefix / whitespace / long-tail twins; other seed; other password; key-swapped setup x 2), the first registration request answered again under every setup and through codec reloads, and every login request answered with the record, without a record and under the key-swapped setup. Relational oracle over all pairs: equal (password, seed, credential id, KSF) <=> equal masking key; equal (seed, credential id, request) <=> equal evaluation element; blinded elements never repeat; and the masking key equals Model B's blind-free formula. distinct = hash of (suite, op/outcome sequence)",
    );
    let mut suites: Vec<&'static dyn SuiteOps> = SIM_SUITES.to_vec();
    suites.extend(ID_SUITES.iter().step_by(ctx.pick(4, 1)));
    let per = ctx.pick(20, 400);
    let mut jobs: Vec<(usize, u64)> = vec![];
    for si in 0..suites.len() {
        for k in 0..per {
            jobs.push((si, k as u64));
        }
    }
    let seed = ctx.seed;
    let gen = |i: usize| {
        let (si, k) = jobs[i];
        gen_world(seed, k, suites[si])
    };
    super::world_batch(ctx, &mut rep, jobs.len(), &gen, OWN, true, Some(&judge));
    rep.assumptions.push("\"unrelated\" is tested as \"not equal\", which is what is decidable".into());
    let _ = KsfFamily::Sim;
    rep
}

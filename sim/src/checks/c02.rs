//! C02 — a wrong password never logs in.
//! Per registration, a near-miss family of login passwords, applied at login
//! start only, finish only, and both; everything else agrees, so the password
//! is the only disagreement. Then every finalization that exists in the world
//! (plus constants) is fed to the server state of the failed session.

use crate::driver::{Ctx, Report};
use crate::gen::*;
use crate::hexs::Hex;
use crate::rng::Gen;
use crate::suite::{Kind, KsfFamily, SuiteOps, ID_SUITES, SIM_SUITES, ARGON_SUITES};
use crate::world::{IdSpec, Op, Ref, WIds, World};

pub const OWN: &[&str] = &[
    "client_accept_unexpected",
    "client_errkind",
    "server_accept_unexpected",
    "server_errkind",
];

pub fn near_misses(g: &mut Gen, p: &[u8]) -> Vec<(&'static str, Vec<u8>)> {
    let mut v: Vec<(&'static str, Vec<u8>)> = vec![];
    let n = p.len();
    // single-bit flips: all when short, 64 sampled positions when long
    let bits = n * 8;
    if bits > 0 {
        let positions: Vec<usize> = if n <= 32 {
            (0..bits).collect()
        } else {
            let mut ps: Vec<usize> = (0..60).map(|_| g.below(bits)).collect();
            ps.extend_from_slice(&[0, 7, bits - 1, bits - 8]);
            ps
        };
        for b in positions {
            let mut q = p.to_vec();
            q[b / 8] ^= 1 << (b % 8);
            v.push(("bitflip", q));
        }
    }
    if n > 0 {
        v.push(("drop_last", p[..n - 1].to_vec()));
        v.push(("drop_first", p[1..].to_vec()));
        for k in [n / 2, n / 3, 1.min(n - 1)] {
            if k < n {
                v.push(("proper_prefix", p[..k].to_vec()));
            }
        }
        v.push(("empty_vs_nonempty", vec![]));
        let mut q = p.to_vec();
        q[n - 1] = q[n - 1].wrapping_add(1);
        v.push(("last_byte_differs", q));
        let mut q = p.to_vec();
        for b in q.iter_mut() {
            if b.is_ascii_alphabetic() {
                *b ^= 0x20;
            }
        }
        if q != p {
            v.push(("case_flip", q));
        }
        if let Some(z) = p.iter().position(|b| *b == 0) {
            v.push(("nul_truncation", p[..z].to_vec()));
        }
    } else {
        v.push(("empty_vs_nonempty", vec![0]));
        v.push(("empty_vs_nonempty", b"x".to_vec()));
    }
    if n < 65535 {
        for (name, b) in [("add_space", b' '), ("add_newline", b'\n'), ("add_nul", 0u8), ("add_byte", b'a')] {
            let mut q = p.to_vec();
            q.push(b);
            v.push((name, q));
        }
        let mut q = vec![b' '];
        q.extend_from_slice(p);
        v.push(("add_first", q));
    }
    if n + 2 <= 65535 {
        // length-prefix confusions: len‖p shapes
        let mut q = (n as u16).to_be_bytes().to_vec();
        q.extend_from_slice(p);
        v.push(("len_prefix_shape", q));
        let mut q = p.to_vec();
        q.extend_from_slice(&(n as u16).to_be_bytes());
        v.push(("len_suffix_shape", q));
    }
    if n * 2 <= 65535 && n > 0 {
        let mut q = p.to_vec();
        q.extend_from_slice(p);
        v.push(("doubled", q));
    }
    // a digest of the password used as the password (pre-hashing of long inputs)
    for h in [crate::spec::HashAlg::Sha256, crate::spec::HashAlg::Sha384, crate::spec::HashAlg::Sha512] {
        v.push(("digest_of_password", h.hash(&[p])));
    }
    if n > 0 && p.iter().all(|b| *b == 0) {
        v.push(("all_zero_vs_empty", vec![]));
    }
    let r = g.bytes(n.max(1).min(64));
    v.push(("unrelated", r));
    v.retain(|(_, q)| q != p);
    v
}

pub fn gen_world(seed: u64, idx: u64, s: &dyn SuiteOps, cover: usize, per_world: usize) -> World {
    let mut g = Gen::new(seed, &format!("gen/c02/{}/{}", s.name(), idx));
    let mut b = WB::new(s, seed, idx, "c02 near-miss passwords");
    let fam = s.ksf_family();
    let setup = b.setup(false);
    // registered password: covering slot walks the length classes; embedded-NUL
    // and 65535-byte cases included
    let pw = match cover % 14 {
        12 => b"ab\0cd".to_vec(),
        13 => b"Correct Horse Battery Staple".to_vec(),
        c => gen_pw(&mut g, c),
    };
    let cred = small_cred(&mut g);
    let k = g.below(4);
    let lid_c = gen_logical_id(&mut g, k);
    let k = g.below(4);
    let lid_s = gen_logical_id(&mut g, k);
    let k = g.below(2);
    let ctx = gen_ctx(&mut g, k);
    let mut ksf = gen_ksf(&mut g, fam, true);
    // one world in seven stretches with an instance that ignores its input: the password must
    // still be bound through the OPRF output itself
    if fam == crate::suite::KsfFamily::Sim && idx % 7 == 3 {
        ksf = crate::suite::KsfArg::Sim(crate::seams::SIMKSF_CONSTANT | 2);
    }
    let reg_ids = WIds {
        client: match &lid_c {
            LogicalId::Default => IdSpec::Absent,
            LogicalId::Bytes(x) => IdSpec::Bytes(x.clone().into()),
        },
        server: spell_server(&mut g, &lid_s, setup),
    };
    let (r, ops) = b.reg_ops(&mut g, setup, &pw, &pw, &cred, reg_ids, ksf.clone(), false);
    for o in ops {
        b.push(o);
    }
    let mut fins: Vec<u32> = vec![];
    // one honest login: supplies a genuine finalization to cross-feed
    {
        let sids = WIds { client: spell_client(&mut g, &lid_c, r.record), server: spell_server(&mut g, &lid_s, setup) };
        let cids = WIds { client: spell_client(&mut g, &lid_c, r.record), server: spell_server(&mut g, &lid_s, setup) };
        let (l, ops) = b.login_ops(&mut g, setup, Some(r.record), &pw, &pw, &cred, Some(ctx.clone()), Some(ctx.clone()), sids, cids, ksf.clone(), false);
        fins.push(l.fin);
        for o in ops {
            b.push(o);
        }
    }
    let mut fam_pw = near_misses(&mut g, &pw);
    g.shuffle(&mut fam_pw);
    // structural near-misses are always kept; the bit flips fill the rest of the budget
    fam_pw.sort_by_key(|(name, _)| *name == "bitflip");
    fam_pw.truncate(per_world);
    let nh = s.lens().nh;
    for (k, (_name, q)) in fam_pw.iter().enumerate() {
        let (ps, pf) = match k % 3 {
            0 => (q.clone(), q.clone()),
            1 => (pw.clone(), q.clone()),
            _ => (q.clone(), pw.clone()),
        };
        let sids = WIds { client: spell_client(&mut g, &lid_c, r.record), server: spell_server(&mut g, &lid_s, setup) };
        let cids = WIds { client: spell_client(&mut g, &lid_c, r.record), server: spell_server(&mut g, &lid_s, setup) };
        let k2 = respell_ksf(&mut g, &ksf, fam);
        // "all contexts": now and then the client's final step is also handed a context it could
        // not even encode; the wrong password must still be what the caller is told about
        let cctx = if k % 8 == 5 { g.bytes(65536) } else { ctx.clone() };
        let (l, mut ops) = b.login_ops(&mut g, setup, Some(r.record), &ps, &pf, &cred, Some(ctx.clone()), Some(cctx), sids, cids, k2, false);
        // the ServerFinish with this session's own (non-existent) finalization is dropped;
        // instead the server state is attacked with everything that exists
        ops.pop();
        for o in ops {
            b.push(o);
        }
        for f in &fins {
            b.push(Op::ServerFinish { st: Ref::mem(l.sst), fin: Ref::mem(*f) });
        }
        b.push(Op::ServerFinish { st: Ref::mem(l.sst), fin: Ref::lit(Kind::CredFin, vec![0u8; nh]) });
        b.push(Op::ServerFinish { st: Ref::mem(l.sst), fin: Ref::lit(Kind::CredFin, g.bytes(nh)) });
        b.push(Op::ServerFinish { st: Ref::mem(l.sst), fin: Ref::mem(l.fin) }); // dangling unless the client (wrongly) accepted
    }
    let _ = Hex(vec![]);
    b.w
}

pub fn run(ctx: &Ctx) -> Report {
    let mut rep = Report::new(
        "per world: one registration (password from the length/content classes incl. embedded NUL and 65535 bytes), one honest login, then near-miss logins (all single-bit flips for <=32-byte passwords / 64 sampled otherwise, drop/add first/last byte, prefixes, extensions, case flip, trailing space/newline/NUL, NUL-truncation twin, empty vs non-empty, length-prefix shapes, doubled, SHA-256/384/512 digest of the password, unrelated) applied at start only / finish only / both, one attempt in eight with a 65536-byte client context on top; every existing finalization + zero + random is fed to each failed session's server state; non-trivial = world contains at least one predicted rejection; distinct = hash of (suite, op/outcome sequence)",
    );
    let mut suites: Vec<&'static dyn SuiteOps> = SIM_SUITES.to_vec();
    suites.extend(ID_SUITES.iter().step_by(3));
    suites.extend(ARGON_SUITES.iter().take(2));
    let per = ctx.pick(14, 400);
    let per_world = ctx.pick(36, 80);
    let mut jobs: Vec<(usize, u64)> = vec![];
    for (si, s) in suites.iter().enumerate() {
        let n = if s.ksf_family() == KsfFamily::Argon2 { ctx.pick(1, 20) } else { per };
        for k in 0..n {
            jobs.push((si, k as u64));
        }
    }
    let seed = ctx.seed;
    let gen = |i: usize| {
        let (si, k) = jobs[i];
        gen_world(seed, k, suites[si], k as usize, per_world)
    };
    super::world_batch(ctx, &mut rep, jobs.len(), &gen, OWN, false, None);
    rep
}

//! C03 — the server completes login only on the matching client finalization.
//! Every pending server state of the world (real record, fake record,
//! wrong-password session, abandoned session, other user) x an enumerated
//! family of candidate finalizations.

use crate::driver::{Ctx, Report};
use crate::gen::*;
use crate::rng::Gen;
use crate::suite::{Kind, SuiteOps, ID_SUITES, SIM_SUITES};
use crate::world::{Op, Ref, WIds, World};

pub const OWN: &[&str] = &[
    "server_accept_unexpected",
    "server_errkind",
    "server_reject_unexpected",
    "key_mismatch",
];

/// candidate family around a base finalization `f` (mode selects the slice of
/// the family this world enumerates, so worlds stay bounded)
pub fn candidates(g: &mut Gen, nh: usize, mode: usize) -> Vec<Cand> {
    let mut v = vec![];
    match mode {
        0 => {
            for bit in 0..nh * 8 {
                v.push(Cand::Xor(vec![(bit / 8, 1u8 << (bit % 8))]));
            }
            v.push(Cand::Const(0));
            v.push(Cand::Const(0xFF));
            for _ in 0..64 {
                v.push(Cand::Random(g.bytes(nh)));
            }
            for len in [0, 1, nh - 1, nh + 1, 2 * nh, nh + 64] {
                v.push(Cand::Len(len));
            }
            // XOR-cancelling pairs, transpositions, swapped halves
            for _ in 0..64 {
                let (i, j) = (g.below(nh), g.below(nh));
                if i != j {
                    let d = 1 + g.below(255) as u8;
                    v.push(Cand::Xor(vec![(i, d), (j, d)]));
                }
            }
            for i in 0..nh - 1 {
                v.push(Cand::Swap(i, i + 1));
            }
            v.push(Cand::Rotate(nh / 2));
            v.push(Cand::Rotate(1));
            v.push(Cand::Reverse);
            // every proper prefix / suffix of the genuine MAC padded with 00 or FF: accepted
            // by any comparison that stops early or ignores padding
            for k in 0..nh {
                for fill in [0u8, 0xFF] {
                    v.push(Cand::KeepPrefix(k, fill));
                    v.push(Cand::KeepSuffix(k, fill));
                }
            }
        }
        m => {
            // byte substitutions: mode m covers offsets (m-1)*chunk..
            let chunk = 8;
            let lo = (m - 1) * chunk;
            for off in lo..(lo + chunk).min(nh) {
                for d in 1..=255u8 {
                    v.push(Cand::Xor(vec![(off, d)]));
                }
            }
        }
    }
    v
}

#[derive(Clone, Debug)]
pub enum Cand {
    Xor(Vec<(usize, u8)>),
    Const(u8),
    Random(Vec<u8>),
    Len(usize),
    Swap(usize, usize),
    Rotate(usize),
    Reverse,
    /// the first k genuine bytes, the rest replaced by `fill`
    KeepPrefix(usize, u8),
    /// the last k genuine bytes, the rest replaced by `fill`
    KeepSuffix(usize, u8),
}

/// A world is built in two phases: phase 1 (sessions) is run to learn the
/// genuine finalization bytes, then the candidate ops are appended as literals.
pub fn gen_world(seed: u64, idx: u64, s: &dyn SuiteOps, mode: usize) -> World {
    let mut g = Gen::new(seed, &format!("gen/c03/{}/{}", s.name(), idx));
    let mut b = WB::new(s, seed, idx, &format!("c03 finalization family mode {mode}"));
    let fam = s.ksf_family();
    let setup = b.setup(g.chance(1, 6));
    let pw1 = small_pw(&mut g);
    let mut pw2 = small_pw(&mut g);
    if pw2 == pw1 {
        pw2.push(b'2');
    }
    let cred1 = small_cred(&mut g);
    let cred2 = small_cred(&mut g);
    let ksf = gen_ksf(&mut g, fam, true);
    let (r1, ops) = b.reg_ops(&mut g, setup, &pw1, &pw1, &cred1, WIds::default(), ksf.clone(), false);
    for o in ops {
        b.push(o);
    }
    let (r2, ops) = b.reg_ops(&mut g, setup, &pw2, &pw2, &cred2, WIds::default(), ksf.clone(), false);
    for o in ops {
        b.push(o);
    }
    let k = g.below(2);
    let ctx = gen_ctx(&mut g, k);
    let mut states: Vec<(u32, Option<u32>)> = vec![]; // (server state, genuine fin if any)
    let mut all_fins: Vec<u32> = vec![];
    // honest u1
    let (l, mut ops) = b.login_ops(&mut g, setup, Some(r1.record), &pw1, &pw1, &cred1, Some(ctx.clone()), Some(ctx.clone()), WIds::default(), WIds::default(), ksf.clone(), false);
    ops.pop();
    for o in ops { b.push(o); }
    states.push((l.sst, Some(l.fin)));
    all_fins.push(l.fin);
    // honest u1 again (another session of the same user)
    let (l, mut ops) = b.login_ops(&mut g, setup, Some(r1.record), &pw1, &pw1, &cred1, None, None, WIds::default(), WIds::default(), ksf.clone(), false);
    ops.pop();
    for o in ops { b.push(o); }
    states.push((l.sst, Some(l.fin)));
    all_fins.push(l.fin);
    // honest u2
    let (l, mut ops) = b.login_ops(&mut g, setup, Some(r2.record), &pw2, &pw2, &cred2, Some(ctx.clone()), Some(ctx.clone()), WIds::default(), WIds::default(), ksf.clone(), false);
    ops.pop();
    for o in ops { b.push(o); }
    states.push((l.sst, Some(l.fin)));
    all_fins.push(l.fin);
    // wrong password against u1's record
    let (l, mut ops) = b.login_ops(&mut g, setup, Some(r1.record), &pw2, &pw2, &cred1, None, None, WIds::default(), WIds::default(), ksf.clone(), false);
    ops.pop();
    for o in ops { b.push(o); }
    states.push((l.sst, None));
    // fake record
    let (l, mut ops) = b.login_ops(&mut g, setup, None, &pw1, &pw1, &cred1, None, None, WIds::default(), WIds::default(), ksf.clone(), false);
    ops.pop();
    for o in ops { b.push(o); }
    states.push((l.sst, None));
    // abandoned: client never finishes
    let (l, mut ops) = b.login_ops(&mut g, setup, Some(r2.record), &pw2, &pw2, &cred2, None, None, WIds::default(), WIds::default(), ksf.clone(), false);
    ops.truncate(2);
    for o in ops { b.push(o); }
    states.push((l.sst, None));

    // a client that was handed an ALTERED response (the genuine one followed by its own first
    // byte / first 32 bytes): it must refuse, so no finalization exists and the server session
    // must not complete (seeded change R8C03-B: response decoder ignoring trailing bytes)
    {
        let (l, mut ops) = b.login_ops(&mut g, setup, Some(r2.record), &pw2, &pw2, &cred2, None, None, WIds::default(), WIds::default(), ksf.clone(), false);
        let extra = if g.chance(1, 2) { 1 } else { 32 };
        if let Some(Op::LoginFinish { resp, .. }) = ops.get_mut(2) {
            *resp = Ref::Splice { kind: crate::suite::Kind::CredResp, parts: vec![crate::world::Part { id: l.resp, from: 0, to: usize::MAX }, crate::world::Part { id: l.resp, from: 0, to: extra }] };
        }
        for o in ops { b.push(o); }
    }

    // phase 1 run: learn the genuine bytes
    let r = crate::world::run_world(&b.w);
    let ops_snapshot = b.w.ops.clone();
    let fin_bytes = |id: u32| -> Option<Vec<u8>> {
        for (e, op) in r.events.iter().zip(ops_snapshot.iter()) {
            if let Op::LoginFinish { out, .. } = op {
                if *out == id {
                    if let Ok(outs) = &e.res {
                        return outs.iter().find(|(n, _)| *n == "fin").map(|(_, h)| h.0.clone());
                    }
                }
            }
        }
        None
    };
    let nh = s.lens().nh;
    let base_all: Vec<Vec<u8>> = all_fins.iter().filter_map(|f| fin_bytes(*f)).collect();
    let fallback = base_all.first().cloned().unwrap_or_else(|| vec![0x5a; nh]);
    for (sst, genuine) in &states {
        let base = genuine.and_then(fin_bytes).unwrap_or_else(|| fallback.clone());
        // cross-session finalizations (all of them, incl. the genuine one for this state)
        for f in &all_fins {
            b.push(Op::ServerFinish { st: Ref::mem(*sst), fin: Ref::mem(*f) });
        }
        for c in candidates(&mut g, nh, mode) {
            let mut x = base.clone();
            match c {
                Cand::Xor(ds) => {
                    for (i, d) in ds {
                        if i < x.len() {
                            x[i] ^= d
                        }
                    }
                }
                Cand::Const(k) => x = vec![k; nh],
                Cand::Random(r) => x = r,
                Cand::Len(n) => {
                    x.resize(n, 0xA5);
                }
                Cand::Swap(i, j) => x.swap(i, j),
                Cand::Rotate(k) => x.rotate_left(k),
                Cand::Reverse => x.reverse(),
                Cand::KeepPrefix(k, fill) => {
                    for b in x.iter_mut().skip(k) {
                        *b = fill;
                    }
                }
                Cand::KeepSuffix(k, fill) => {
                    let n = x.len();
                    for b in x.iter_mut().take(n - k.min(n)) {
                        *b = fill;
                    }
                }
            }
            if x == base && genuine.is_some() {
                continue; // e.g. a swap of two equal bytes: that *is* the genuine message
            }
            b.push(Op::ServerFinish { st: Ref::mem(*sst), fin: Ref::lit(Kind::CredFin, x) });
        }
        if mode == 0 {
            // finalizations computable without any secret: MACs and hashes over constants
            let h = crate::spec::oprf_hash(s.oprf());
            let consts: [Vec<u8>; 3] = [vec![0u8; nh], vec![0xFFu8; nh], vec![]];
            for k in &consts {
                for m in &consts {
                    b.push(Op::ServerFinish { st: Ref::mem(*sst), fin: Ref::lit(Kind::CredFin, h.hmac(k, &[m])) });
                }
                b.push(Op::ServerFinish { st: Ref::mem(*sst), fin: Ref::lit(Kind::CredFin, h.hash(&[k])) });
            }
        }
        if mode == 0 {
            // the pending state as a deployment stores it: through every codec. A forger who
            // knows the transcript hash (public: it is a hash of wire data) tries MACs under
            // constant keys; the genuine finalization must still be accepted
            let st_bytes = r.events.iter().zip(ops_snapshot.iter()).find_map(|(e, op)| match (op, &e.res) {
                (Op::LoginRespond { st, .. }, Ok(outs)) if st == sst => outs.iter().find(|(n, _)| *n == "state").map(|(_, h)| h.0.clone()),
                _ => None,
            });
            let h = crate::spec::oprf_hash(s.oprf());
            for codec in crate::suite::BYTE_CODECS {
                if let Some(sb) = &st_bytes {
                    if sb.len() == 3 * nh {
                        for k in [vec![0u8; nh], vec![0xFFu8; nh]] {
                            for chunk in 0..3 {
                                let forged = h.hmac(&k, &[&sb[chunk * nh..(chunk + 1) * nh]]);
                                b.push(Op::ServerFinish { st: Ref::via(*sst, codec), fin: Ref::lit(Kind::CredFin, forged) });
                            }
                        }
                    }
                }
                if let Some(f) = genuine {
                    b.push(Op::ServerFinish { st: Ref::via(*sst, codec), fin: Ref::mem(*f) });
                }
            }
        }
        // the genuine one, once more, after all the forgeries (through bytes)
        if let Some(f) = genuine {
            b.push(Op::ServerFinish { st: Ref::via(*sst, crate::suite::Codec::Native), fin: Ref::via(*f, crate::suite::Codec::Native) });
        }
    }
    b.w
}

pub fn run(ctx: &Ctx) -> Report {
    let mut rep = Report::new(
        "per world: 6 pending server states (two sessions of u1, u2, wrong-password, fake record, abandoned) x candidate finalizations: every finalization of the world (cross-session/user), all 8*Nh single-bit flips, all 255*Nh single-byte substitutions (modes 1..Nh/8, 8 offsets each), all-zero, all-0xFF, 64 random, wrong lengths, 12 secret-free constant MACs/hashes, constant-key MACs over each chunk of the stored state against the state reloaded through native/bincode/JSON (where the genuine finalization must still succeed), 64 XOR-cancelling byte pairs, all adjacent transpositions, rotations, reversal, every proper prefix and suffix of the genuine MAC padded with 00 / FF; the genuine one must succeed with the client's key. The substitution family is enumerated completely per state; states/worlds are seeded samples. non-trivial = contains a predicted rejection",
    );
    rep.exhaustive = Some(true);
    let mut suites: Vec<&'static dyn SuiteOps> = SIM_SUITES.to_vec();
    if !ctx.quick() {
        suites.extend(ID_SUITES.iter());
    }
    let reps = ctx.pick(1, 6);
    let mut jobs: Vec<(usize, u64, usize)> = vec![];
    for (si, s) in suites.iter().enumerate() {
        let nh = s.lens().nh;
        for k in 0..reps {
            for mode in 0..=nh / 8 {
                jobs.push((si, k as u64, mode));
            }
        }
    }
    let seed = ctx.seed;
    let gen = |i: usize| {
        let (si, k, mode) = jobs[i];
        gen_world(seed, k, suites[si], mode)
    };
    super::world_batch(ctx, &mut rep, jobs.len(), &gen, OWN, false, None);
    rep
}

//! C16 — export key stable, separated, never on the wire.

use std::collections::{BTreeMap, HashSet};

use crate::driver::{Ctx, Report};
use crate::gen::*;
use crate::rng::Gen;
use crate::suite::{Kind, SuiteOps, ID_SUITES, SIM_SUITES};
use crate::world::{Op, RunResult, Tape, Violation, WIds, World};

pub const OWN: &[&str] = &[
    "export_key_mismatch",
    "export_key_not_separated",
    "secret_on_wire",
];

pub fn gen_world(seed: u64, idx: u64, s: &dyn SuiteOps) -> World {
    let mut g = Gen::new(seed, &format!("gen/c16/{}/{}", s.name(), idx));
    let mut b = WB::new(s, seed, idx, "c16 export key history");
    let fam = s.ksf_family();
    let setup = b.setup(false);
    // "another server": an unrelated one, or (every other world) one that holds the SAME static
    // key behind its own freshly drawn OPRF seed
    let setup2 = if idx % 2 == 0 {
        b.setup(false)
    } else {
        let out = b.id();
        let t = b.tape("setup-with-key");
        b.push(Op::NewSetupWithKey { out, tape: t, sk_from: setup });
        out
    };
    // high-entropy passwords >= 16 bytes so that the substring monitor is meaningful
    let pwlen = 16 + g.below(24);
    let pw_a = g.bytes(pwlen);
    let pwlen_b = 16 + g.below(24);
    let pw_b = g.bytes(pwlen_b);
    let long = g.bytes(150);
    let mut long2 = long.clone();
    *long2.last_mut().unwrap() ^= 1;
    // two identifiers made of the same 128-byte segments in opposite order
    let (seg_a, seg_b) = (g.bytes(128), g.bytes(128));
    let creds: Vec<Vec<u8>> = vec![b"alice".to_vec(), b"bob".to_vec(), long, long2, b"alice ".to_vec(), [&seg_a[..], &seg_b[..]].concat(), [&seg_b[..], &seg_a[..]].concat()];
    let mut ksf = gen_ksf(&mut g, fam, true);
    // a fifth of the SimKsf worlds stretch with an instance that ignores its input
    if fam == crate::suite::KsfFamily::Sim && idx % 5 == 3 {
        ksf = crate::suite::KsfArg::Sim(crate::seams::SIMKSF_CONSTANT | 1);
    }
    // registrations: (setup, pw, cred); several share one client tape so that
    // separation has to come from the inputs, not from the nonce
    let shared_tape_start = b.tape("regstart-shared");
    let shared_tape_fin = b.tape("regfinish-shared");
    // the same password with a line ending / a blank / a NUL appended: other passwords
    let pw_twins: Vec<Vec<u8>> = [&b"\n"[..], b"\r\n", b" ", b"\0"].iter().map(|t| [&pw_a[..], t].concat()).collect();
    let twin = &pw_twins[(idx as usize) % pw_twins.len()];
    let plan: Vec<(u32, &Vec<u8>, usize, bool)> = vec![
        (setup, &pw_a, 0, true),
        (setup, &pw_a, 0, false), // re-registration, same everything, fresh tape
        (setup, &pw_b, 0, true),  // another password, same tape
        (setup, twin, 0, true),   // the first password plus a trailing line ending / blank / NUL, same tape
        (setup, &pw_a, 1, true),  // another user, same tape
        (setup, &pw_a, 2, true),  // long id
        (setup, &pw_a, 3, true),  // long id differing in the last byte, same tape
        (setup, &pw_a, 4, true),  // whitespace twin
        (setup, &pw_a, 5, true),  // long id of two 128-byte segments
        (setup, &pw_a, 6, true),  // the same segments in opposite order, same tape
        (setup2, &pw_a, 0, true), // another server, same tape
    ];
    let mut threads = vec![];
    for (su, pw, ci, shared) in plan {
        let (r, mut ops) = b.reg_ops(&mut g, su, pw, pw, &creds[ci], WIds::default(), ksf.clone(), true);
        if shared {
            if let Op::RegStart { tape, .. } = &mut ops[0] {
                *tape = shared_tape_start.clone();
            }
            if let Op::RegFinish { tape, .. } = &mut ops[2] {
                *tape = shared_tape_fin.clone();
            }
        }
        // repeated logins with varying context and tapes
        for k in 0..(1 + g.below(3)) {
            let ctx = if k == 0 { None } else { Some(g.bytes(1 + k * 3)) };
            let (_, lops) = b.login_ops(&mut g, su, Some(r.record), pw, pw, &creds[ci], ctx.clone(), ctx, WIds::default(), WIds::default(), ksf.clone(), true);
            ops.extend(lops);
        }
        threads.push(ops);
    }
    b.interleave(&mut g, threads);
    let _ = Tape::Own(String::new());
    // a third of the worlds run on a generator whose try_fill_bytes reports errors
    if idx % 3 == 2 {
        b.w.knobs.rng_try_fill_fails = true;
    }
    b.w
}

pub fn judge(w: &World, r: &RunResult) -> Vec<Violation> {
    let mut v = vec![];
    // separation: export keys of distinct registrations pairwise differ
    let mut seen: BTreeMap<Vec<u8>, usize> = BTreeMap::new();
    for (i, (op, e)) in w.ops.iter().zip(r.events.iter()).enumerate() {
        if let (Op::RegFinish { .. }, Ok(outs)) = (op, &e.res) {
            if let Some((_, k)) = outs.iter().find(|(n, _)| *n == "export_key") {
                if let Some(i0) = seen.get(&k.0) {
                    v.push(Violation {
                        clause: "export_key_not_separated",
                        op: i,
                        detail: format!("registrations at op {i0} and op {i} returned the same export key {}", hex::encode(&k.0)),
                    });
                } else {
                    seen.insert(k.0.clone(), i);
                }
            }
        }
    }
    // monitor 3: no 16-byte window of a secret in any message or password file
    let mut windows: HashSet<[u8; 16]> = HashSet::new();
    let mut owner: BTreeMap<[u8; 16], &'static str> = BTreeMap::new();
    for (name, sec) in &r.secrets {
        if sec.len() >= 16 {
            for wdw in sec.windows(16) {
                let a: [u8; 16] = wdw.try_into().unwrap();
                windows.insert(a);
                owner.entry(a).or_insert(name);
            }
        }
    }
    'outer: for (kind, bytes) in &r.wire {
        if !matches!(kind, Kind::RegReq | Kind::RegResp | Kind::RegUpload | Kind::CredReq | Kind::CredResp | Kind::CredFin | Kind::PwFile) {
            continue;
        }
        if bytes.len() < 16 {
            continue;
        }
        for (off, wdw) in bytes.windows(16).enumerate() {
            let a: [u8; 16] = wdw.try_into().unwrap();
            if windows.contains(&a) {
                v.push(Violation {
                    clause: "secret_on_wire",
                    op: w.ops.len(),
                    detail: format!("16 bytes of a {} appear verbatim at offset {off} of a {:?}: {}", owner[&a], kind, hex::encode(a)),
                });
                break 'outer;
            }
        }
    }
    v
}

pub fn run(ctx: &Ctx) -> Report {
    let mut rep = Report::new(
        "per world: two servers, 8 registrations (same user re-registered; other password; other user; 150-byte ids differing in the last byte; whitespace twin; other server — all but the re-registration on the SAME client tapes so that separation must come from the inputs), 1-3 logins each with varying context, interleaved, delivered in memory or through codecs. Checked: every successful login returns the registration's export key (Model A); export keys of distinct registrations pairwise differ; no 16-byte window of any export key, session key or (random, >=16-byte) password occurs in any message or password file (native, bincode and JSON forms)",
    );
    let mut suites: Vec<&'static dyn SuiteOps> = SIM_SUITES.to_vec();
    suites.extend(ID_SUITES.iter().step_by(ctx.pick(4, 1)));
    let per = ctx.pick(6, 300);
    let mut jobs: Vec<(usize, u64)> = vec![];
    for si in 0..suites.len() {
        for k in 0..per {
            jobs.push((si, k as u64));
        }
    }
    let seed = ctx.seed;
    let gen = |i: usize| {
        let (si, k) = jobs[i];
        gen_world(seed, k, suites[si])
    };
    super::world_batch(ctx, &mut rep, jobs.len(), &gen, OWN, true, Some(&judge));
    rep
}

//! Valid encodings of every kind, harvested from one honest seeded run.

use std::collections::BTreeMap;

use crate::gen::*;
use crate::rng::Gen;
use crate::suite::{Kind, SuiteOps};
use crate::world::{run_world, Op, WIds, World};

pub struct Harvest {
    pub world: World,
    pub by_kind: BTreeMap<Kind, Vec<Vec<u8>>>,
}

impl Harvest {
    pub fn first(&self, k: Kind) -> &Vec<u8> {
        &self.by_kind[&k][0]
    }
    /// None when the honest run did not get that far (that is C01's business)
    pub fn get(&self, k: Kind) -> Option<&Vec<u8>> {
        self.by_kind.get(&k).and_then(|v| v.first())
    }
}

/// one setup, one registration, one real login and one fake attempt
pub fn harvest(s: &dyn SuiteOps, seed: u64, idx: u64, hsm: bool) -> Harvest {
    let mut g = Gen::new(seed, &format!("gen/harvest/{}/{}", s.name(), idx));
    let mut b = WB::new(s, seed, idx, "harvest");
    let setup = b.setup(hsm);
    let pw = b"harvest-password".to_vec();
    let cred = small_cred(&mut g);
    let ksf = crate::suite::KsfArg::Absent;
    let (r, ops) = b.reg_ops(&mut g, setup, &pw, &pw, &cred, WIds::default(), ksf.clone(), false);
    for o in ops {
        b.push(o);
    }
    let (_, ops) = b.login_ops(&mut g, setup, Some(r.record), &pw, &pw, &cred, None, None, WIds::default(), WIds::default(), ksf.clone(), false);
    for o in ops {
        b.push(o);
    }
    let (_, mut ops) = b.login_ops(&mut g, setup, None, &pw, &pw, &cred, None, None, WIds::default(), WIds::default(), ksf, false);
    ops.truncate(2);
    for o in ops {
        b.push(o);
    }
    let r = run_world(&b.w);
    let mut by_kind: BTreeMap<Kind, Vec<Vec<u8>>> = BTreeMap::new();
    for (op, e) in b.w.ops.iter().zip(r.events.iter()) {
        let Ok(outs) = &e.res else { continue };
        let get = |n: &str| outs.iter().find(|(x, _)| *x == n).map(|(_, h)| h.0.clone());
        let mut put = |k: Kind, v: Option<Vec<u8>>| {
            if let Some(v) = v {
                by_kind.entry(k).or_default().push(v)
            }
        };
        match op {
            Op::NewSetup { hsm, .. } => put(if *hsm { Kind::SetupHsm } else { Kind::Setup }, get("setup")),
            Op::RegStart { .. } => {
                put(Kind::ClientReg, get("state"));
                put(Kind::RegReq, get("msg"));
            }
            Op::RegRespond { .. } => put(Kind::RegResp, get("msg")),
            Op::RegFinish { .. } => put(Kind::RegUpload, get("upload")),
            Op::RegStore { .. } => put(Kind::PwFile, get("record")),
            Op::LoginStart { .. } => {
                put(Kind::ClientLogin, get("state"));
                put(Kind::CredReq, get("msg"));
            }
            Op::LoginRespond { .. } => {
                put(Kind::ServerLogin, get("state"));
                put(Kind::CredResp, get("msg"));
            }
            Op::LoginFinish { .. } => put(Kind::CredFin, get("fin")),
            _ => {}
        }
    }
    Harvest { world: b.w, by_kind }
}

//! C15 — the key-stretching function is applied once and bound into every secret.

use std::collections::BTreeMap;

use crate::driver::{Case, Ctx, Found, Report};
use serde_json::json;
use crate::gen::*;
use crate::layout::fields;
use crate::rng::Gen;
use crate::suite::{Kind, KsfArg, KsfFamily, SuiteOps, ARGON_SUITES, ID_SUITES, SIM_SUITES};
use crate::world::{ksf_effective, Fault, Op, RunResult, Violation, WIds, World};

pub const OWN: &[&str] = &[
    "client_accept_unexpected",
    "client_reject_unexpected",
    "client_errkind",
    "step_failed",
    "ksf_call_count",
    "ksf_wrong_instance",
    "ksf_input_mismatch",
    "ksf_not_bound",
    "seam_error_swallowed",
    "seam_error_wrong_kind",
    "panic",
];

fn pairs(fam: KsfFamily, g: &mut Gen, thorough: bool) -> Vec<(KsfArg, KsfArg)> {
    use KsfArg::*;
    match fam {
        KsfFamily::Sim => {
            let a = 1 + g.below(1000) as u32;
            let b = a + 1 + g.below(1000) as u32;
            vec![(Absent, Absent), (Absent, Sim(0)), (Sim(0), Absent), (Sim(0), Sim(0)), (Sim(a), Sim(a)), (Sim(a), Sim(b)), (Absent, Sim(a)), (Sim(a), Absent), (Sim(a), Sim(0)),
                // instances whose output ignores the input: still two different instances
                (Sim(crate::seams::SIMKSF_CONSTANT | a), Sim(crate::seams::SIMKSF_CONSTANT | a)), (Sim(crate::seams::SIMKSF_CONSTANT | a), Sim(crate::seams::SIMKSF_CONSTANT | b)), (Sim(a), Sim(crate::seams::SIMKSF_CONSTANT | a))]
        }
        KsfFamily::Identity => vec![(Absent, Absent), (Absent, Identity), (Identity, Absent), (Identity, Identity)],
        KsfFamily::Argon2 => {
            let small = Argon2 { m: 8, t: 1, p: 1 };
            let mut v = vec![
                (small.clone(), small.clone()),
                (small.clone(), Argon2 { m: 16, t: 1, p: 1 }),
                (small.clone(), Argon2 { m: 8, t: 2, p: 1 }),
                (Absent, small.clone()),
                (small.clone(), Absent),
                // same cost, another variant / version: a different instance
                (small.clone(), Argon2Alg { alg: 0, v10: false, m: 8, t: 1, p: 1 }),
                (Argon2Alg { alg: 1, v10: false, m: 8, t: 1, p: 1 }, small.clone()),
                (Argon2Alg { alg: 1, v10: false, m: 8, t: 1, p: 1 }, Argon2Alg { alg: 1, v10: false, m: 8, t: 1, p: 1 }),
                (small.clone(), Argon2Alg { alg: 2, v10: true, m: 8, t: 1, p: 1 }),
                (small.clone(), Argon2Alg { alg: 2, v10: false, m: 8, t: 1, p: 1 }),
            ];
            if thorough || g.chance(1, 2) {
                v.push((Absent, Argon2Default));
                v.push((Argon2Default, Absent));
                v.push((Absent, Argon2 { m: argon2::Params::DEFAULT_M_COST, t: argon2::Params::DEFAULT_T_COST, p: argon2::Params::DEFAULT_P_COST }));
            }
            v
        }
    }
}

pub fn gen_world(seed: u64, idx: u64, s: &dyn SuiteOps, mode: usize, thorough: bool) -> World {
    let mut g = Gen::new(seed, &format!("gen/c15/{}/{}", s.name(), idx));
    let mut b = WB::new(s, seed, idx, &format!("c15 mode {mode}"));
    let fam = s.ksf_family();
    let setup = b.setup(false);
    let pw = small_pw(&mut g);
    let cred = small_cred(&mut g);
    // the Identity family has a single instance: mode 1 does not apply
    let mode = if fam == KsfFamily::Identity && mode % 3 == 1 { 0 } else { mode };
    match mode % 3 {
        0 => {
            for (kr, kl) in pairs(fam, &mut g, thorough) {
                let (r, ops) = b.reg_ops(&mut g, setup, &pw, &pw, &cred, WIds::default(), kr, false);
                for o in ops {
                    b.push(o);
                }
                let (_, ops) = b.login_ops(&mut g, setup, Some(r.record), &pw, &pw, &cred, None, None, WIds::default(), WIds::default(), kl, false);
                for o in ops {
                    b.push(o);
                }
            }
        }
        1 => {
            // same tapes, two KSF instances: every password-derived secret must differ
            let (ka, kb) = match fam {
                KsfFamily::Sim => (KsfArg::Sim(3), KsfArg::Sim(4)),
                KsfFamily::Identity => unreachable!(),
                KsfFamily::Argon2 => {
                    if idx % 2 == 0 {
                        (KsfArg::Argon2 { m: 8, t: 1, p: 1 }, KsfArg::Argon2 { m: 16, t: 1, p: 1 })
                    } else {
                        (KsfArg::Argon2 { m: 8, t: 1, p: 1 }, KsfArg::Argon2Alg { alg: 0, v10: false, m: 8, t: 1, p: 1 })
                    }
                }
            };
            let ts = b.tape("regstart-shared");
            let tf = b.tape("regfinish-shared");
            for k in [ka, kb] {
                let (_, mut ops) = b.reg_ops(&mut g, setup, &pw, &pw, &cred, WIds::default(), k, false);
                if let Op::RegStart { tape, .. } = &mut ops[0] {
                    *tape = ts.clone();
                }
                if let Op::RegFinish { tape, .. } = &mut ops[2] {
                    *tape = tf.clone();
                }
                for o in ops {
                    b.push(o);
                }
            }
            b.w.note = "c15 same tapes, two KSF instances".into();
        }
        _ => {
            // KSF failing at call n of a finish step
            let k = gen_ksf(&mut g, fam, true);
            let (r, ops) = b.reg_ops(&mut g, setup, &pw, &pw, &cred, WIds::default(), k.clone(), false);
            let reg_finish_at = b.w.ops.len() + 2;
            for o in ops {
                b.push(o);
            }
            let (_, ops) = b.login_ops(&mut g, setup, Some(r.record), &pw, &pw, &cred, None, None, WIds::default(), WIds::default(), k, false);
            let login_finish_at = b.w.ops.len() + 2;
            for o in ops {
                b.push(o);
            }
            let which = (idx / 3) % 4;
            b.w.faults = match which {
                0 => vec![Fault::KsfFailAt { op: reg_finish_at, call: 1 }],
                1 => vec![Fault::KsfFailAt { op: login_finish_at, call: 1 }],
                2 => vec![Fault::KsfFailAt { op: login_finish_at, call: 2 }],
                _ => vec![Fault::KsfFailAt { op: reg_finish_at, call: 2 }, Fault::KsfFailAt { op: login_finish_at, call: 1 }],
            };
            b.w.note = format!("c15 KSF fault plan {:?}", b.w.faults);
        }
    }
    b.w
}

pub fn judge(w: &World, r: &RunResult) -> Vec<Violation> {
    let s = crate::suite::suite_by_name(&w.suite).unwrap();
    let fam = s.ksf_family();
    let lens = s.lens();
    let mut v = vec![];
    // call count / instance / input (observable only through the SimKsf seam)
    if fam == KsfFamily::Sim {
        let mut reg_input: BTreeMap<(Vec<u8>, Vec<u8>), Vec<u8>> = BTreeMap::new();
        for (i, (op, e)) in w.ops.iter().zip(r.events.iter()).enumerate() {
            let (ksf, pw) = match op {
                Op::RegFinish { ksf, pw, .. } | Op::LoginFinish { ksf, pw, .. } => (ksf, pw),
                _ => continue,
            };
            if e.skipped {
                continue;
            }
            // the KSF is reached whenever the step got past decoding and the reflection check
            let reached = match &e.res {
                Ok(_) => true,
                Err(f) => f.stage == crate::suite::Stage::Op && !matches!(f.kind, crate::suite::ErrKind::ReflectedValue),
            };
            if !reached {
                continue;
            }
            if e.ksf_calls.len() != 1 {
                v.push(Violation { clause: "ksf_call_count", op: i, detail: format!("{}: the key-stretching function was called {} times, must be exactly once", e.name, e.ksf_calls.len()) });
                continue;
            }
            let want = match ksf_effective(ksf, fam) {
                KsfArg::Sim(t) => t,
                _ => 0,
            };
            if e.ksf_calls[0].0 != want {
                v.push(Violation { clause: "ksf_wrong_instance", op: i, detail: format!("{}: caller passed {:?} but the instance with tag {} was evaluated", e.name, ksf, e.ksf_calls[0].0) });
            }
            if e.ksf_calls[0].1 .0.len() != lens.nh {
                v.push(Violation { clause: "ksf_input_mismatch", op: i, detail: format!("{}: KSF input has {} bytes, the OPRF output has {}", e.name, e.ksf_calls[0].1 .0.len(), lens.nh) });
            }
            // same password under the same (seed, credential id): same OPRF output at registration and login
            if let Op::RegFinish { .. } = op {
                reg_input.insert((pw.0.clone(), vec![]), e.ksf_calls[0].1 .0.clone());
            } else if let Some(x) = reg_input.get(&(pw.0.clone(), vec![])) {
                if w.note.starts_with("c15 mode") && x != &e.ksf_calls[0].1 .0 && e.res.is_ok() {
                    v.push(Violation { clause: "ksf_input_mismatch", op: i, detail: "the value stretched at login differs from the one stretched at registration for the same password and credential".into() });
                }
            }
        }
    }
    if w.note.contains("same tapes, two KSF") {
        let ups: Vec<(usize, Vec<u8>, Vec<u8>)> = w
            .ops
            .iter()
            .zip(r.events.iter())
            .enumerate()
            .filter_map(|(i, (op, e))| match (op, &e.res) {
                (Op::RegFinish { .. }, Ok(o)) if o.len() >= 2 => Some((i, o[0].1 .0.clone(), o[1].1 .0.clone())),
                _ => None,
            })
            .collect();
        if ups.len() == 2 {
            let fl = fields(Kind::RegUpload, &lens);
            for f in &fl {
                let (a, b) = (&ups[0].1[f.off..f.off + f.len], &ups[1].1[f.off..f.off + f.len]);
                if f.name == "envelope_nonce" {
                    continue;
                }
                if a == b {
                    v.push(Violation { clause: "ksf_not_bound", op: ups[1].0, detail: format!("{} is identical under two different key-stretching instances (same tapes): {}", f.name, hex::encode(a)) });
                }
            }
            if ups[0].2 == ups[1].2 {
                v.push(Violation { clause: "ksf_not_bound", op: ups[1].0, detail: "export key is identical under two different key-stretching instances".into() });
            }
        } else {
            v.push(Violation { clause: "step_failed", op: 0, detail: "registration under an explicit KSF instance failed".into() });
        }
    }
    // a planned fault at call 2 must not fire: the step makes exactly one call and succeeds
    for f in &w.faults {
        if let Fault::KsfFailAt { op, call } = f {
            if *call >= 2 {
                if let Some(e) = r.events.get(*op) {
                    if e.fault_fired {
                        v.push(Violation { clause: "ksf_call_count", op: *op, detail: format!("{}: a failure planned for KSF call {} fired — the function is called more than once", e.name, call) });
                    }
                }
            }
        }
    }
    v
}

pub fn run(ctx: &Ctx) -> Report {
    let mut rep = Report::new(
        "3 world modes on SimKsf (20 suites), Identity (20) and Argon2 (4) instantiations: (0) (registration, login) KSF pairs — absent/explicit default/equal/different instances incl. Argon2 with non-default cost and the real default — decided by Model A, with the SimKsf seam's call log checked for exactly one call per finish step, the right instance, an Nh-byte input equal at registration and login; (1) two registrations on the SAME tapes under two instances: client public key, masking key, envelope MAC and export key must all differ; (2) SimKsf failing at call 1 of registration finish / login finish (must surface as LibraryError(KsfError), no panic) and at call 2 (must never fire); (3) a Ksf type WITHOUT fields (unit struct SimKsfUnit) on the fixed suite ristretto255/ristretto255 vs SimKsf{tag} computing the same function on the same tapes: one logged call per finish step, injected failure at call 1 of either finish step returned as an error, upload / export key / finalization / session keys byte-identical. distinct = hash of (suite, op/outcome sequence)",
    );
    rep.exhaustive = Some(true);
    let mut suites: Vec<&'static dyn SuiteOps> = SIM_SUITES.to_vec();
    suites.extend(ID_SUITES.iter().step_by(ctx.pick(4, 1)));
    suites.extend(ARGON_SUITES.iter());
    let per = ctx.pick(12, 240);
    let mut jobs: Vec<(usize, u64)> = vec![];
    for (si, s) in suites.iter().enumerate() {
        let n = if s.ksf_family() == KsfFamily::Argon2 { ctx.pick(3, 24) } else { per };
        for k in 0..n {
            jobs.push((si, k as u64));
        }
    }
    let seed = ctx.seed;
    let thorough = !ctx.quick();
    let gen = |i: usize| {
        let (si, k) = jobs[i];
        gen_world(seed, k, suites[si], k as usize, thorough)
    };
    super::world_batch(ctx, &mut rep, jobs.len(), &gen, OWN, true, Some(&judge));
    // (3) a key-stretching type WITHOUT fields (unit struct, hard-wired parameters), on the
    // fixed suite ristretto255/ristretto255: same flow, same tapes, under `SimKsfUnit` and under
    // `SimKsf { tag: SIMKSF_UNIT_TAG }`, which compute the same function
    for k in 0..ctx.pick(16, 400) as u64 {
        let mut g = Gen::new(seed, &format!("gen/c15/unitksf/{k}"));
        let pseed = g.below(1 << 30) as u64;
        let pw = small_pw(&mut g);
        let explicit = g.chance(1, 2);
        let fault = g.below(4); // 0,1 none; 2 registration; 3 login
        rep.evaluations += 2;
        *rep.stats.probes.entry("fieldless_ksf_flow".into()).or_insert(0) += 1;
        if fault >= 2 {
            *rep.stats.faults.entry("ksf_fail_fieldless").or_insert(0) += 1;
        }
        for (clause, detail) in unitksf_verdicts(pseed, &pw, explicit, fault) {
            rep.add_found(Found {
                clause: clause.into(),
                detail: format!("field-less Ksf type (ristretto255/ristretto255): {detail}"),
                signature: format!("{clause}:unitksf"),
                case: Case::Custom { mode: "unitksf".into(), params: json!({"seed": pseed, "pw": hex::encode(&pw), "explicit": explicit, "fault": fault}) },
            });
        }
    }
    rep.assumptions.push("equality of the stretched value with the RFC's OPRF output is decided in C09/C14 (Model B); here it is checked for length and for equality between registration and login".into());
    rep
}

/// the oracle of probe (3); also used by replay
pub fn unitksf_verdicts(pseed: u64, pw: &[u8], explicit: bool, fault: usize) -> Vec<(&'static str, String)> {
    use sim_core::unitksf::{flow_tag, flow_unit};
    use sim_core::seams::SIMKSF_UNIT_TAG;
    let (fr, fl) = (if fault == 2 { Some(1) } else { None }, if fault == 3 { Some(1) } else { None });
    let u = match std::panic::catch_unwind(|| flow_unit(pseed, pw, explicit, fr, fl)) {
        Ok(u) => u,
        Err(_) => return vec![("panic", "panic in a flow with a field-less Ksf".into())],
    };
    let t = match std::panic::catch_unwind(|| flow_tag(pseed, pw, true, fr, fl)) {
        Ok(t) => t,
        Err(_) => return vec![("panic", "panic in the reference flow".into())],
    };
    let mut v = vec![];
    // exactly one call per client finish step that was reached, on the right instance
    let reached_login = u.reg.is_ok();
    for (name, calls, reached) in [("registration finish", &u.reg_calls, true), ("login finish", &u.login_calls, reached_login)] {
        if reached && calls.len() != 1 {
            v.push(("ksf_call_count", format!("{name} made {} key-stretching calls instead of 1", calls.len())));
        }
        if calls.iter().any(|c| c.0 != SIMKSF_UNIT_TAG) {
            v.push(("ksf_wrong_instance", format!("{name} called another instance")));
        }
    }
    if let (Some(a), Some(b)) = (u.reg_calls.first(), u.login_calls.first()) {
        if a.1 != b.1 {
            v.push(("ksf_input_mismatch", "registration and login stretched different inputs for the same password and record".into()));
        }
    }
    // injected failure: returned as an error of that step, never swallowed
    if fault == 2 {
        match &u.reg {
            Ok(_) => v.push(("seam_error_swallowed", "the key-stretching call of registration finish failed, yet the step returned Ok".into())),
            Err(e) if !e.contains("Ksf") => v.push(("seam_error_wrong_kind", format!("failing key-stretching call reported as {e}"))),
            _ => {}
        }
    }
    if fault == 3 {
        match &u.login {
            Ok(_) => v.push(("seam_error_swallowed", "the key-stretching call of login finish failed, yet the step returned Ok".into())),
            Err(e) if !e.contains("Ksf") => v.push(("seam_error_wrong_kind", format!("failing key-stretching call reported as {e}"))),
            _ => {}
        }
    }
    // the same function through a type with a field: everything observable is identical
    if fault < 2 {
        if u.reg.is_err() || u.login.is_err() || u.server_key.is_none() {
            v.push(("step_failed", format!("honest flow did not complete: reg={:?} login={:?}", u.reg.as_ref().err(), u.login.as_ref().err())));
        }
        if let (Ok(l), Some(sk)) = (&u.login, &u.server_key) {
            if &l.1 != sk {
                v.push(("step_failed", "client and server session keys differ".into()));
            }
        }
    }
    if u.reg != t.reg || u.login != t.login || u.server_key != t.server_key {
        v.push(("ksf_not_bound", "outputs under the field-less type differ from those under SimKsf computing the same function on the same tapes (upload, export key, finalization or session key)".into()));
    }
    v
}

pub fn replay_unitksf(params: &serde_json::Value) -> Option<String> {
    let pw = hex::decode(params["pw"].as_str()?).ok()?;
    let v = unitksf_verdicts(params["seed"].as_u64()?, &pw, params["explicit"].as_bool()?, params["fault"].as_u64()? as usize);
    v.into_iter().next().map(|x| format!("{}: {}", x.0, x.1))
}

//! C12 — total, panic-free handling of every input.
//! (a) monitor 1 (no panic) over seeded samples of every other property's
//! worlds; (b) random and structure-preserving mutated byte strings into all
//! 11 decoders x 3 codecs, and whatever decodes is pushed through the
//! protocol step that consumes it; (c) well-formed messages of other
//! kinds/sessions/suites into every protocol step; (d) catalogue values
//! (invalid and extreme-valid) planted in every field; (e) parameter lengths
//! {0,1,255,256,65535,65536,65537,131072}.

use serde_json::json;

use crate::catalog;
use crate::checks::c10::grp_of;
use crate::checks::c11::plant;
use crate::checks::harvest::{harvest, Harvest};
use crate::driver::{fnv, par_map, Case, Ctx, Found, Report};
use crate::gen::*;
use crate::hexs::Hex;
use crate::layout::fields;
use crate::rng::{Gen, SimRng};
use crate::suite::{Codec, Fail, Ids, Item, Kind, KsfArg, SuiteOps, BYTE_CODECS, NATIVE_DECODERS, SIM_SUITES, ARGON_SUITES};
use crate::world::{IdSpec, Op, Ref, RunResult, Violation, WIds, World};

pub const OWN: &[&str] = &["panic", "oversize_accepted"];

/// push an item that decoded into the protocol step(s) that consume it;
/// returns the first panic seen
fn exercise(s: &dyn SuiteOps, h: &Harvest, item: &Item, seed: u64) -> Option<String> {
    let mut rng = SimRng::new(seed, "c12/exercise");
    // if the honest run itself is broken (C01's business) the partner items are missing: skip
    for k in [Kind::Setup, Kind::ClientReg, Kind::RegReq, Kind::RegResp, Kind::PwFile, Kind::ClientLogin, Kind::CredReq, Kind::CredResp, Kind::ServerLogin, Kind::CredFin] {
        h.get(k)?;
    }
    let nat = |k: Kind| Item::native(k, h.first(k));
    let pw = b"pw".as_slice();
    let ids = Ids::default();
    let mut results: Vec<Result<(), Fail>> = vec![];
    for c in BYTE_CODECS {
        results.push(s.encode(item, c).map(|_| ()));
    }
    match item.kind {
        Kind::RegReq => results.push(s.server_reg_start(&nat(Kind::Setup), item, b"cid").map(|_| ())),
        Kind::RegResp => results.push(s.client_reg_finish(&mut rng, &nat(Kind::ClientReg), pw, item, &ids, &KsfArg::Absent).map(|_| ())),
        Kind::RegUpload => match s.server_reg_finish(item) {
            Ok(rec) => results.push(s.server_login_start(&mut rng, &nat(Kind::Setup), Some(&rec), &nat(Kind::CredReq), b"cid", None, &ids).map(|_| ())),
            Err(f) => results.push(Err(f)),
        },
        Kind::CredReq => results.push(s.server_login_start(&mut rng, &nat(Kind::Setup), Some(&nat(Kind::PwFile)), item, b"cid", None, &ids).map(|_| ())),
        Kind::CredResp => results.push(s.client_login_finish(&nat(Kind::ClientLogin), pw, item, None, &ids, &KsfArg::Absent).map(|_| ())),
        Kind::CredFin => results.push(s.server_login_finish(&nat(Kind::ServerLogin), item).map(|_| ())),
        Kind::PwFile => results.push(s.server_login_start(&mut rng, &nat(Kind::Setup), Some(item), &nat(Kind::CredReq), b"cid", None, &ids).map(|_| ())),
        Kind::Setup | Kind::SetupHsm => {
            results.push(s.setup_public_key(item).map(|_| ()));
            results.push(s.server_reg_start(item, &nat(Kind::RegReq), b"cid").map(|_| ()));
            results.push(s.server_login_start(&mut rng, item, Some(&nat(Kind::PwFile)), &nat(Kind::CredReq), b"cid", None, &ids).map(|_| ()));
            results.push(s.server_login_start(&mut rng, item, None, &nat(Kind::CredReq), b"cid", None, &ids).map(|_| ()));
        }
        Kind::ClientReg => results.push(s.client_reg_finish(&mut rng, item, pw, &nat(Kind::RegResp), &ids, &KsfArg::Absent).map(|_| ())),
        Kind::ClientLogin => results.push(s.client_login_finish(item, pw, &nat(Kind::CredResp), None, &ids, &KsfArg::Absent).map(|_| ())),
        Kind::ServerLogin => results.push(s.server_login_finish(item, &nat(Kind::CredFin)).map(|_| ())),
    }
    results.into_iter().find_map(|r| match r {
        Err(f) if f.is_panic() => Some(f.short()),
        _ => None,
    })
}

struct JobOut {
    evals: u64,
    decoded_ok: u64,
    exercised: u64,
    shapes: Vec<u64>,
    found: Vec<Found>,
    max_us: u128,
    sample: Option<serde_json::Value>,
}

fn decoder_job(ctx: &Ctx, s: &dyn SuiteOps, kind: Kind, others: &[Vec<u8>], n_rand: usize, n_mut: usize) -> JobOut {
    let h = harvest(s, ctx.seed, 0, false);
    let lens = s.lens();
    let mut out = JobOut { evals: 0, decoded_ok: 0, exercised: 0, shapes: vec![], found: vec![], max_us: 0, sample: None };
    let Some(valids) = h.by_kind.get(&kind) else { return out };
    let v = valids[0].clone();
    let Ok(item) = s.decode(kind, Codec::Native, &v) else { return out };
    let mut g = Gen::new(ctx.seed, &format!("gen/c12/{}/{:?}", s.name(), kind));
    let fl = fields(kind, &lens);
    for codec in BYTE_CODECS {
        let Ok(enc) = s.encode(&item, codec) else { continue };
        let mut inputs: Vec<(String, Vec<u8>)> = vec![];
        for _ in 0..n_rand {
            let len = match g.below(4) {
                0 => enc.len(),
                1 => g.below(enc.len() + 70),
                2 => g.below(8),
                _ => enc.len() + g.below(3),
            };
            inputs.push(("random".into(), g.bytes(len)));
        }
        // every length from nothing to a little beyond the encoding: its own prefix (padded
        // with A5 beyond the end) and a random string of that length
        if codec == Codec::Native {
            for len in 0..=enc.len() + 8 {
                let mut b = enc.clone();
                b.resize(len, 0xA5);
                inputs.push(("every_length".into(), b));
                inputs.push(("every_length".into(), g.bytes(len)));
            }
        }
        // every single-bit flip of the bincode form (enum tags, length prefixes and all)
        if codec == Codec::Bincode && (!ctx.quick() || matches!(kind, Kind::PwFile | Kind::RegUpload | Kind::Setup | Kind::SetupHsm)) {
            // quick: every fourth bit, the phase rotating with the suite
            let (step, phase) = if ctx.quick() { (4, (crate::driver::fnv(s.name().as_bytes()) % 4) as usize) } else { (1, 0) };
            for bit in (phase..enc.len() * 8).step_by(step) {
                let mut b = enc.clone();
                b[bit / 8] ^= 1 << (bit % 8);
                inputs.push(("every_bit".into(), b));
            }
        }
        for _ in 0..n_mut {
            let mut b = enc.clone();
            let class = match g.below(8) {
                0 => {
                    let o = g.below(b.len());
                    b[o] ^= 1 << g.below(8);
                    "bitflip"
                }
                1 => {
                    for _ in 0..1 + g.below(4) {
                        let o = g.below(b.len());
                        b[o] = g.below(256) as u8;
                    }
                    "bytes"
                }
                2 => {
                    b.truncate(g.below(b.len()));
                    "truncate"
                }
                3 => {
                    let n = 1 + g.below(64);
                    b.extend(g.bytes(n));
                    "extend"
                }
                4 if !others.is_empty() => {
                    // splice a window from an unrelated valid encoding (other kind / other suite)
                    let o = g.pick(others);
                    if !o.is_empty() {
                        let n = 1 + g.below(o.len().min(b.len()));
                        let (so, dst) = (g.below(o.len() - n + 1), g.below(b.len() - n + 1));
                        b[dst..dst + n].copy_from_slice(&o[so..so + n]);
                    }
                    "splice"
                }
                5 if codec == Codec::Native && !fl.is_empty() => {
                    // zero / 0xFF a whole field
                    let f = g.pick(&fl);
                    let val = if g.chance(1, 2) { 0 } else { 0xFF };
                    for x in b[f.off..f.off + f.len].iter_mut() {
                        *x = val;
                    }
                    "field_const"
                }
                6 if codec == Codec::Native && fl.len() >= 2 => {
                    // swap two equal-length fields
                    let (a, c) = (g.below(fl.len()), g.below(fl.len()));
                    if fl[a].len == fl[c].len && a != c {
                        let (x, y) = (v[fl[a].off..fl[a].off + fl[a].len].to_vec(), v[fl[c].off..fl[c].off + fl[c].len].to_vec());
                        b[fl[a].off..fl[a].off + fl[a].len].copy_from_slice(&y);
                        b[fl[c].off..fl[c].off + fl[c].len].copy_from_slice(&x);
                    }
                    "field_swap"
                }
                _ => {
                    let o = g.below(b.len());
                    let n = g.below(b.len() - o);
                    b.drain(o..o + n.min(4));
                    "delete"
                }
            };
            inputs.push((class.into(), b));
        }
        // (d) catalogue values planted in every element/scalar field
        for f in &fl {
            let Some(grp) = grp_of(s, f.ty) else { continue };
            let cat = catalog::load(&ctx.verif_dir, grp);
            let entries = if matches!(f.ty, crate::layout::FieldTy::OprfElem | crate::layout::FieldTy::KePk) { &cat.elems } else { &cat.scalars };
            for e in entries {
                let bad = hex::decode(&e.hex).unwrap();
                if bad.len() != f.len {
                    continue;
                }
                if let Some(p) = plant(codec, &enc, &v[f.off..f.off + f.len], &bad) {
                    inputs.push((format!("planted:{}:{}", f.name, e.cl), p));
                }
            }
        }
        for (class, b) in inputs {
            out.evals += 1;
            let t0 = std::time::Instant::now();
            let r = s.decode(kind, codec, &b);
            let us = t0.elapsed().as_micros();
            out.max_us = out.max_us.max(us);
            let cls = class.split(':').next().unwrap_or("").to_string();
            out.shapes.push(fnv(format!("{}|{:?}|{:?}|{}|{}", s.name(), kind, codec, class, r.is_ok()).as_bytes()));
            let panic = match &r {
                Err(f) if f.is_panic() => Some(f.short()),
                Ok(it) => {
                    out.decoded_ok += 1;
                    // whatever decodes is used: the next protocol step must not panic either
                    if cls != "random" || true {
                        out.exercised += 1;
                        exercise(s, &h, it, ctx.seed)
                    } else {
                        None
                    }
                }
                _ => None,
            };
            if let Some(p) = panic {
                let loc = p.split(" @ ").last().unwrap_or("?").trim_end_matches("\")@Op").to_string();
                let sig = format!("panic:{:?}:{}", kind, loc);
                if !out.found.iter().any(|f| f.signature == sig) {
                    out.found.push(Found {
                        clause: "panic".into(),
                        detail: format!("{}: {:?} via {:?} [{}]: {}", s.name(), kind, codec, class, p),
                        signature: sig,
                        case: Case::Decode { suite: s.name().into(), kind, codec, bytes: Hex(b.clone()), expect: "nopanic".into(), note: class.clone() },
                    });
                }
            }
        }
        if out.sample.is_none() {
            out.sample = Some(json!({"suite": s.name(), "decoder": format!("{kind:?}"), "codec": format!("{codec:?}"), "valid": crate::hexs::abbrev(&enc)}));
        }
    }
    out
}

pub fn replay_decode(suite: &str, kind: Kind, codec: Codec, bytes: &[u8], seed: u64) -> Option<String> {
    let s = crate::suite::suite_by_name(suite)?;
    let h = harvest(s, seed, 0, false);
    match s.decode(kind, codec, bytes) {
        Err(f) if f.is_panic() => Some(f.short()),
        Ok(it) => exercise(s, &h, &it, seed),
        _ => None,
    }
}

/// random / wrong-length / mutated / catalogue inputs into the stand-alone key decoders
fn keyapi_job(ctx: &Ctx, s: &dyn SuiteOps) -> (u64, Vec<Found>, Vec<u64>) {
    let h = harvest(s, ctx.seed, 0, false);
    let l = s.lens();
    let mut g = Gen::new(ctx.seed, &format!("gen/c12/keyapi/{}", s.name()));
    let mut found = vec![];
    let mut shapes = vec![];
    let mut n = 0u64;
    let Some(setup) = h.get(Kind::Setup) else { return (0, found, shapes) };
    let sk = setup[l.nh..l.nh + l.nsk].to_vec();
    let pk = s.setup_public_key(&Item::native(Kind::Setup, setup)).unwrap_or_default();
    let cat = catalog::load(&ctx.verif_dir, s.ke());
    for which in 0..4u8 {
        let base = if which == 0 { pk.clone() } else { sk.clone() };
        if base.is_empty() {
            continue; // the honest setup itself is broken: C01's business
        }
        let mut inputs: Vec<(String, Vec<u8>)> = vec![("valid".into(), base.clone())];
        for len in 0..=base.len() + 8 {
            let mut b = base.clone();
            b.resize(len, 0xA5);
            inputs.push(("length".into(), b));
            inputs.push(("random_length".into(), g.bytes(len)));
        }
        for len in [2 * base.len(), 2 * base.len() + 1, 255, 256, 1000] {
            inputs.push(("long".into(), g.bytes(len)));
        }
        for _ in 0..ctx.pick(200, 4000) {
            let mut b = base.clone();
            let o = g.below(b.len());
            b[o] ^= 1 << g.below(8);
            inputs.push(("bitflip".into(), b));
            inputs.push(("random".into(), g.bytes(base.len())));
        }
        let entries = if which == 0 { &cat.elems } else { &cat.scalars };
        for e in entries {
            inputs.push((format!("catalogue:{}", e.cl), hex::decode(&e.hex).unwrap()));
        }
        for (class, b) in inputs {
            n += 1;
            let r = s.key_api(which, &b);
            shapes.push(fnv(format!("{}|keyapi{}|{}|{}", s.name(), which, class.split(':').next().unwrap_or(""), r.is_ok()).as_bytes()));
            if let Err(f) = &r {
                if f.is_panic() {
                    let p = f.short();
                    let loc = p.split(" @ ").last().unwrap_or("?").trim_end_matches("\")@Op").to_string();
                    let sig = format!("panic:keyapi{}:{}", which, loc);
                    if !found.iter().any(|x: &Found| x.signature == sig) {
                        found.push(Found {
                            clause: "panic".into(),
                            detail: format!("{}: key-pair API call {} ({}) on a {}-byte input [{}]: {}", s.name(), which, ["PublicKey::deserialize", "PrivateKey::deserialize", "KeyPair::from_private_key_slice", "KeyPair<_, external key>::from_private_key_slice"][which as usize], b.len(), class, p),
                            signature: sig,
                            case: Case::Custom { mode: "keyapi".into(), params: json!({"suite": s.name(), "which": which, "bytes": hex::encode(&b)}) },
                        });
                    }
                }
            }
        }
    }
    // a server setup whose external key container serializes to 200 bytes (longer than two
    // scalars): its decoder is handed the stored form of such a setup, a directly-held setup's
    // bytes, and strings of every length around both
    if let Ok(wide) = s.key_api(5, &sk) {
        let mut inputs: Vec<(String, Vec<u8>)> = vec![("wide_valid".into(), wide.clone()), ("direct_setup".into(), setup.clone())];
        for base in [&wide, setup] {
            for d in -3i64..=3 {
                let len = (base.len() as i64 + d).max(0) as usize;
                let mut b = base.clone();
                b.resize(len, 0xA5);
                inputs.push(("wide_length".into(), b));
                inputs.push(("wide_random_length".into(), g.bytes(len)));
            }
        }
        for len in [0usize, 1, l.nh, l.nh + l.nsk, l.nh + 200, 2 * wide.len()] {
            inputs.push(("wide_random_length".into(), g.bytes(len)));
        }
        for _ in 0..ctx.pick(100, 2000) {
            let mut b = wide.clone();
            let o = g.below(b.len());
            b[o] ^= 1 << g.below(8);
            inputs.push(("wide_bitflip".into(), b));
        }
        for (class, b) in inputs {
            n += 1;
            let r = s.key_api(4, &b);
            if class == "wide_valid" && std::env::var("VERIF_DEBUG").is_ok() {
                eprintln!("debug: {} wide_valid ({} bytes) -> {:?}", s.name(), b.len(), r.as_ref().map(|x| x.len()).map_err(|f| f.short()));
            }
            shapes.push(fnv(format!("{}|keyapi4|{}|{}", s.name(), class, r.is_ok()).as_bytes()));
            if let Err(f) = &r {
                if f.is_panic() {
                    let p = f.short();
                    let loc = p.split(" @ ").last().unwrap_or("?").trim_end_matches("\")@Op").to_string();
                    let sig = format!("panic:keyapi4:{}", loc);
                    if !found.iter().any(|x: &Found| x.signature == sig) {
                        found.push(Found {
                            clause: "panic".into(),
                            detail: format!("{}: ServerSetup::<_, 200-byte key container>::deserialize on a {}-byte input [{}]: {}", s.name(), b.len(), class, p),
                            signature: sig,
                            case: Case::Custom { mode: "keyapi".into(), params: json!({"suite": s.name(), "which": 4, "bytes": hex::encode(&b)}) },
                        });
                    }
                }
            }
        }
    }
    (n, found, shapes)
}

pub fn replay_keyapi(params: &serde_json::Value) -> Option<String> {
    let s = crate::suite::suite_by_name(params["suite"].as_str()?)?;
    let b = hex::decode(params["bytes"].as_str()?).ok()?;
    match s.key_api(params["which"].as_u64()? as u8, &b) {
        Err(f) if f.is_panic() => Some(f.short()),
        _ => None,
    }
}

// ---------------------------------------------------------------- (e) oversize parameters

const LENS: [usize; 8] = [0, 1, 255, 256, 65535, 65536, 65537, 131072];

fn size_world(seed: u64, idx: u64, s: &dyn SuiteOps, which: usize, len: usize) -> World {
    let mut g = Gen::new(seed, &format!("gen/c12/size/{}/{}", s.name(), idx));
    let mut b = WB::new(s, seed, idx, &format!("c12 parameter {} of {} bytes", ["password", "password_prefix_twin", "cred_id", "client_id", "server_id", "context_server", "context_client", "context_both", "password_at_finish_only"][which], len));
    let setup = b.setup(false);
    let big = g.bytes(len);
    let pw: Vec<u8> = if which == 0 { big.clone() } else { b"pw".to_vec() };
    let cred = if which == 2 { big.clone() } else { b"cid".to_vec() };
    let idspec = |x: &Vec<u8>| IdSpec::Bytes(Hex(x.clone()));
    let ids = match which {
        3 => WIds { client: idspec(&big), server: IdSpec::Absent },
        4 => WIds { client: IdSpec::Absent, server: idspec(&big) },
        _ => WIds::default(),
    };
    let ksf = gen_ksf(&mut g, s.ksf_family(), true);
    if which == 8 {
        // the start steps see a short password, the finish steps the long one
        let (_, ops) = b.reg_ops(&mut g, setup, b"pw", &big, &cred, ids.clone(), ksf.clone(), false);
        for o in ops {
            b.push(o);
        }
        let (r2, ops) = b.reg_ops(&mut g, setup, b"pw", b"pw", &cred, ids.clone(), ksf.clone(), false);
        for o in ops {
            b.push(o);
        }
        let (_, ops) = b.login_ops(&mut g, setup, Some(r2.record), b"pw", &big, &cred, None, None, ids.clone(), ids.clone(), ksf, false);
        for o in ops {
            b.push(o);
        }
        return b.w;
    }
    if which == 1 {
        // registered: the longest encodable prefix; login: the over-long password sharing it
        let reg_pw = big[..len.min(65535)].to_vec();
        let (r, ops) = b.reg_ops(&mut g, setup, &reg_pw, &reg_pw, &cred, ids.clone(), ksf.clone(), false);
        for o in ops {
            b.push(o);
        }
        let (_, ops) = b.login_ops(&mut g, setup, Some(r.record), &big, &big, &cred, None, None, ids.clone(), ids.clone(), ksf, false);
        for o in ops {
            b.push(o);
        }
        return b.w;
    }
    let (r, ops) = b.reg_ops(&mut g, setup, &pw, &pw, &cred, ids.clone(), ksf.clone(), false);
    for o in ops {
        b.push(o);
    }
    // registration under small ids so that the login can exist even when the big ones are refused
    let (r2, ops) = b.reg_ops(&mut g, setup, b"pw", b"pw", b"cid", WIds::default(), ksf.clone(), false);
    for o in ops {
        b.push(o);
    }
    let (sctx, cctx) = match which {
        5 => (Some(big.clone()), Some(big[..len.min(65535)].to_vec())),
        6 => (Some(big[..len.min(65535)].to_vec()), Some(big.clone())),
        7 => (Some(big.clone()), Some(big.clone())),
        _ => (None, None),
    };
    let rec = if len > 65535 && (which == 0 || which == 3 || which == 4) { r2.record } else { r.record };
    let lpw: &[u8] = if rec == r2.record { b"pw" } else { &pw };
    let (_, ops) = b.login_ops(&mut g, setup, Some(rec), if which == 0 { &pw } else { lpw }, if which == 0 { &pw } else { lpw }, if rec == r2.record { b"cid" } else { &cred }, sctx, cctx, ids.clone(), ids, ksf, false);
    for o in ops {
        b.push(o);
    }
    b.w
}

/// over-long inputs must be refused: by the call that takes them (identities,
/// context) or by the flow before anything that depends on them exists (password)
pub fn size_judge(w: &World, r: &RunResult) -> Vec<Violation> {
    let mut v = vec![];
    let over = |x: &Option<Hex>| x.as_ref().map_or(false, |h| h.0.len() > 65535);
    let over_id = |x: &IdSpec| matches!(x, IdSpec::Bytes(h) if h.0.len() > 65535);
    for (i, (op, e)) in w.ops.iter().zip(r.events.iter()).enumerate() {
        if e.skipped {
            continue;
        }
        let (too_long, what) = match op {
            Op::RegFinish { pw, ids, .. } => (pw.0.len() > 65535 || over_id(&ids.client) || over_id(&ids.server), "password or identity"),
            Op::LoginRespond { ctx, ids, .. } => (over(ctx) || over_id(&ids.client) || over_id(&ids.server), "context or identity"),
            Op::LoginFinish { pw, ctx, ids, .. } => (pw.0.len() > 65535 || over(ctx) || over_id(&ids.client) || over_id(&ids.server), "password, context or identity"),
            _ => (false, ""),
        };
        if too_long && e.res.is_ok() {
            v.push(Violation { clause: "oversize_accepted", op: i, detail: format!("{} accepted a {} longer than 65535 bytes instead of refusing it [{}]", e.name, what, w.note) });
        }
    }
    v
}

pub fn run(ctx: &Ctx) -> Report {
    let mut rep = Report::new(
        "(a) no-panic monitor over seeded samples of the C01-C08/C16 world generators; (b) per suite x 11 decoders x {native, bincode, JSON}: random strings (lengths around the valid one), every length 0..len+8 (own prefix and random), every single-bit flip of the bincode form (quick: password file, upload and server setup only, every fourth bit with a per-suite phase), and mutations of valid encodings (bit flips, byte rewrites, truncation, extension, deletion, window splices from unrelated encodings of other kinds and suites, whole-field 00/FF, equal-length field swaps); (c) everything that decodes is pushed through the protocol step that consumes it and re-encoded through all codecs; (d) every catalogue entry (invalid and extreme-valid: scalar 1, 2, order-1) planted in every element/scalar field, same treatment; (e) parameter lengths {0,1,255,256,65535,65536,65537,131072} for password, credential id, each identity, context (server / client / both), the 65535-prefix twin of an over-long password and an over-long password given to the finish steps only: no panic, and anything over 65535 bytes must be refused by the call that takes it (identities, context) or by the finish step (password). distinct = (suite, decoder, codec, mutation class, decoded?) + world shapes",
    );
    let suites: Vec<&'static dyn SuiteOps> = SIM_SUITES.to_vec();
    // (b)-(d)
    let mut others: Vec<Vec<u8>> = vec![];
    for s in [suites[0], suites[6], suites[12], suites[19]] {
        let h = harvest(s, ctx.seed, 1, false);
        for v in h.by_kind.values() {
            if let Some(x) = v.first() {
                others.push(x.clone());
            }
        }
    }
    let mut jobs = vec![];
    for si in 0..suites.len() {
        for k in NATIVE_DECODERS {
            jobs.push((si, k));
        }
    }
    let (n_rand, n_mut) = ctx.pick((150, 500), (3000, 10000));
    let outs = par_map(jobs.len(), ctx.threads, |i| decoder_job(ctx, suites[jobs[i].0], jobs[i].1, &others, n_rand, n_mut));
    let (mut ok, mut exd, mut max_us) = (0, 0, 0);
    for o in outs {
        rep.evaluations += o.evals;
        ok += o.decoded_ok;
        exd += o.exercised;
        max_us = max_us.max(o.max_us);
        for s in o.shapes {
            rep.shapes.insert(s);
        }
        for f in o.found {
            rep.add_found(f);
        }
        if let Some(s) = o.sample {
            rep.sample(s);
        }
    }
    rep.extra.insert("decoder_inputs".into(), json!(rep.evaluations));
    rep.extra.insert("decoded_ok_then_exercised_in_protocol".into(), json!(exd));
    rep.extra.insert("decoded_ok".into(), json!(ok));
    rep.extra.insert("slowest_decode_us".into(), json!(max_us as u64));
    // the stand-alone key-pair API (PublicKey / PrivateKey / KeyPair decoders, both key types)
    let kjobs: Vec<usize> = (0..suites.len()).collect();
    let kouts = par_map(kjobs.len(), ctx.threads, |i| keyapi_job(ctx, suites[kjobs[i]]));
    let mut kevals = 0u64;
    for (n, found, shapes) in kouts {
        kevals += n;
        for f in found {
            rep.add_found(f);
        }
        for s in shapes {
            rep.shapes.insert(s);
        }
    }
    rep.evaluations += kevals;
    rep.extra.insert("keypair_api_inputs".into(), json!(kevals));
    // (a) monitor 1 over the other generators
    let seed = ctx.seed;
    let n = ctx.pick(3, 40);
    let mut wjobs: Vec<(usize, usize, u64)> = vec![];
    for si in 0..suites.len() {
        for gen_id in 0..8 {
            for k in 0..n {
                wjobs.push((si, gen_id, k as u64));
            }
        }
    }
    let gen = |i: usize| {
        let (si, gid, k) = wjobs[i];
        let s = suites[si];
        match gid {
            0 => super::c01::gen_world(seed, k, s, k as usize),
            1 => super::c02::gen_world(seed, k, s, k as usize, 12),
            2 => super::c03::gen_world(seed, k, s, 0),
            3 => super::c04::gen_world(seed, k, s, 0, 4, false),
            4 => super::c05::gen_world(seed, k, s, k as usize),
            5 => super::c06::gen_world(seed, k, s),
            6 => super::c08::gen_world(seed, k, s),
            _ => super::c16::gen_world(seed, k, s),
        }
    };
    super::world_batch(ctx, &mut rep, wjobs.len(), &gen, OWN, false, None);
    // (c) foreign well-formed messages into every protocol step
    let fjobs: Vec<(usize, u64)> = (0..suites.len()).flat_map(|si| (0..ctx.pick(2, 30)).map(move |k| (si, k as u64))).collect();
    let others2 = others.clone();
    let genf = |i: usize| {
        let (si, k) = fjobs[i];
        foreign_world(seed, k, suites[si], &others2)
    };
    super::world_batch(ctx, &mut rep, fjobs.len(), &genf, OWN, true, None);
    // (e) sizes
    let mut sjobs = vec![];
    for si in 0..suites.len() {
        for which in 0..9 {
            for (li, len) in LENS.iter().enumerate() {
                // quick: every (parameter, length) pair on a rotating quarter of the suites
                if ctx.quick() && (si + which + li) % 4 != 0 {
                    continue;
                }
                sjobs.push((si, which, *len));
            }
        }
    }
    let gens = |i: usize| {
        let (si, which, len) = sjobs[i];
        size_world(seed, i as u64, suites[si], which, len)
    };
    super::world_batch(ctx, &mut rep, sjobs.len(), &gens, OWN, true, Some(&size_judge));
    // (f) Argon2 instances whose Params carry an explicit output length (shorter than, equal to
    // and longer than Nh), at registration, at login, or both: every step yields a value
    let argon: Vec<&'static dyn SuiteOps> = ARGON_SUITES.to_vec();
    let mut ojobs = vec![];
    for si in 0..argon.len() {
        let nh = argon[si].lens().nh as u32;
        for out in [4u32, 16, nh - 1, nh, nh + 1, 64, 128, 1024] {
            for mode in 0..3 {
                ojobs.push((si, out, mode));
            }
        }
    }
    let ogens = |i: usize| {
        let (si, out, mode) = ojobs[i];
        let s = argon[si];
        let mut g = Gen::new(seed, &format!("gen/c12/argon-out/{}/{}", s.name(), i));
        let mut b = WB::new(s, seed, i as u64, &format!("c12 Argon2 with output_len {out} (Nh = {}), mode {mode}", s.lens().nh));
        let setup = b.setup(false);
        let plain = KsfArg::Argon2 { m: 8, t: 1, p: 1 };
        let odd = KsfArg::Argon2Out { out };
        let (rk, lk) = match mode {
            0 => (odd.clone(), odd.clone()),
            1 => (plain.clone(), odd.clone()),
            _ => (odd.clone(), plain.clone()),
        };
        let (r, ops) = b.reg_ops(&mut g, setup, b"pw", b"pw", b"cid", WIds::default(), rk, false);
        for o in ops {
            b.push(o);
        }
        let (_, ops) = b.login_ops(&mut g, setup, Some(r.record), b"pw", b"pw", b"cid", None, None, WIds::default(), WIds::default(), lk, false);
        for o in ops {
            b.push(o);
        }
        b.w
    };
    super::world_batch(ctx, &mut rep, ojobs.len(), &ogens, OWN, true, None);
    rep.stats.faults.insert("decoder_input_mutations", rep.extra["decoder_inputs"].as_u64().unwrap_or(0));
    rep.assumptions.push("termination is observed as every call returning (the batch finishes); the slowest single decode is reported".into());
    rep.assumptions.push("abusive generators (constant output) and allocation failure are out of scope (DESIGN.md section 6)".into());
    rep
}

/// every protocol step is handed well-formed messages/states of the wrong kind,
/// from unrelated sessions, or from another suite
fn foreign_world(seed: u64, idx: u64, s: &dyn SuiteOps, others: &[Vec<u8>]) -> World {
    let mut g = Gen::new(seed, &format!("gen/c12/foreign/{}/{}", s.name(), idx));
    let mut b = WB::new(s, seed, idx, "c12 foreign well-formed inputs into every step");
    let setup = b.setup(false);
    let setup2 = b.setup(false);
    let ksf = gen_ksf(&mut g, s.ksf_family(), true);
    let (r, ops) = b.reg_ops(&mut g, setup, b"pw", b"pw", b"cid", WIds::default(), ksf.clone(), false);
    for o in ops {
        b.push(o);
    }
    let (l, ops) = b.login_ops(&mut g, setup, Some(r.record), b"pw", b"pw", b"cid", None, None, WIds::default(), WIds::default(), ksf.clone(), false);
    for o in ops {
        b.push(o);
    }
    let (r2, ops) = b.reg_ops(&mut g, setup2, b"pw2", b"pw2", b"cid", WIds::default(), ksf.clone(), false);
    for o in ops {
        b.push(o);
    }
    let (l2, ops) = b.login_ops(&mut g, setup2, Some(r2.record), b"pw2", b"pw2", b"cid", None, None, WIds::default(), WIds::default(), ksf.clone(), false);
    for o in ops {
        b.push(o);
    }
    let pool: Vec<u32> = vec![setup, setup2, r.st, r.req, r.resp, r.upload, r.record, l.cst, l.req, l.sst, l.resp, l.fin, r2.upload, r2.record, l2.req, l2.resp, l2.fin, l2.cst, l2.sst];
    let any = |g: &mut Gen, want: Kind| -> Ref {
        if g.chance(1, 3) {
            Ref::lit(want, g.pick(others).clone())
        } else {
            // a live item of whatever kind, delivered as native bytes
            Ref::via(*g.pick(&pool), Codec::Native)
        }
    };
    for _ in 0..40 {
        let id1 = b.id();
        let id2 = b.id();
        let t = b.tape("foreign");
        let op = match g.below(7) {
            0 => Op::RegRespond { out: id1, setup: Ref::mem(setup), req: any(&mut g, Kind::RegReq), cred: b"cid".to_vec().into() },
            1 => Op::RegFinish { out: id1, tape: t, st: if g.chance(1, 2) { Ref::mem(r.st) } else { any(&mut g, Kind::ClientReg) }, pw: b"pw".to_vec().into(), resp: any(&mut g, Kind::RegResp), ids: WIds::default(), ksf: ksf.clone() },
            2 => Op::RegStore { out: id1, upload: any(&mut g, Kind::RegUpload) },
            3 => Op::LoginRespond { st: id1, msg: id2, tape: t, setup: if g.chance(3, 4) { Ref::mem(setup) } else { any(&mut g, Kind::Setup) }, record: if g.chance(1, 2) { Some(any(&mut g, Kind::PwFile)) } else { Some(Ref::mem(r.record)) }, req: any(&mut g, Kind::CredReq), cred: b"cid".to_vec().into(), ctx: None, ids: WIds::default() },
            4 => Op::LoginFinish { out: id1, st: if g.chance(1, 2) { Ref::mem(l.cst) } else { any(&mut g, Kind::ClientLogin) }, pw: b"pw".to_vec().into(), resp: any(&mut g, Kind::CredResp), ctx: None, ids: WIds::default(), ksf: ksf.clone() },
            5 => Op::ServerFinish { st: if g.chance(1, 2) { Ref::mem(l.sst) } else { any(&mut g, Kind::ServerLogin) }, fin: any(&mut g, Kind::CredFin) },
            _ => Op::Reload { id: *g.pick(&pool), codec: *g.pick(&BYTE_CODECS) },
        };
        b.push(op);
    }
    b.w
}

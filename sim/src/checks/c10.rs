//! C10 — wire and storage encodings are strict and canonical.
//! Decoder-level fault enumeration: for each of the 11 native decoders and
//! each suite, starting from valid encodings harvested from a seeded run:
//! every length 0..len+64, every value of the leading byte of every
//! group-element/scalar field, substitutions at every offset of those fields,
//! scalars + group order, Curve25519 top-bit twins.
//! Oracle: decode(b) = Ok(x)  =>  x.serialize() == b.

use serde_json::json;

use crate::catalog;
use crate::checks::harvest::harvest;
use crate::driver::{fnv, par_map, Case, Ctx, Found, Report};
use crate::hexs::Hex;
use crate::layout::{fields, FieldTy};
use crate::rng::Gen;
use crate::suite::{Codec, Grp, Kind, SuiteOps, NATIVE_DECODERS, SIM_SUITES};

pub fn grp_of(s: &dyn SuiteOps, ty: FieldTy) -> Option<Grp> {
    match ty {
        FieldTy::OprfElem | FieldTy::OprfScalar => Some(s.oprf()),
        FieldTy::KePk | FieldTy::KeSk => Some(s.ke()),
        FieldTy::Bytes => None,
    }
}

/// None = fine; Some(detail) = accepted but not canonical
pub fn judge_bytes(s: &dyn SuiteOps, kind: Kind, b: &[u8]) -> (bool, Option<String>) {
    match s.decode(kind, Codec::Native, b) {
        Err(f) => {
            if f.is_panic() {
                (false, None) // C12's business
            } else {
                (false, None)
            }
        }
        Ok(item) => match s.encode(&item, Codec::Native) {
            Ok(re) if re == b => (true, None),
            Ok(re) => (
                true,
                Some(format!(
                    "{:?}::deserialize accepted {} bytes that re-encode to {} bytes differing {}",
                    kind,
                    b.len(),
                    re.len(),
                    if re.len() != b.len() {
                        "in length".to_string()
                    } else {
                        let off = re.iter().zip(b.iter()).position(|(x, y)| x != y).unwrap_or(0);
                        format!("first at offset {off}: input {:02x} -> canonical {:02x}", b[off], re[off])
                    }
                )),
            ),
            Err(e) => (true, Some(format!("accepted but re-encoding failed: {}", e.short()))),
        },
    }
}

struct JobOut {
    evals: u64,
    accepted: u64,
    shapes: Vec<u64>,
    found: Vec<Found>,
    sample: Option<serde_json::Value>,
}

fn job(ctx: &Ctx, s: &dyn SuiteOps, kind: Kind, thorough: bool) -> JobOut {
    let h = harvest(s, ctx.seed, 0, false);
    let lens = s.lens();
    let mut out = JobOut { evals: 0, accepted: 0, shapes: vec![], found: vec![], sample: None };
    let Some(valids) = h.by_kind.get(&kind) else { return out };
    let mut g = Gen::new(ctx.seed, &format!("gen/c10/{}/{:?}", s.name(), kind));
    let fl = fields(kind, &lens);
    let total: usize = fl.iter().map(|f| f.len).sum();
    let mut test = |out: &mut JobOut, class: String, sig: String, b: &[u8], must_reject: bool| {
        out.evals += 1;
        let (acc, bad) = judge_bytes(s, kind, b);
        if acc {
            out.accepted += 1;
        }
        out.shapes.push(fnv(format!("{}|{:?}|{}|{}", s.name(), kind, class, acc).as_bytes()));
        let detail = match (bad, acc && must_reject) {
            (Some(d), _) => Some(d),
            (None, true) => Some(format!("{:?}::deserialize accepted a {}-byte input although the encoding has exactly {} bytes", kind, b.len(), total)),
            _ => None,
        };
        if let Some(d) = detail {
            if !out.found.iter().any(|f| f.signature == sig) {
                out.found.push(Found {
                    clause: "non_canonical_accepted".into(),
                    detail: format!("{} [{}] {}", s.name(), class, d),
                    signature: sig,
                    case: Case::Decode { suite: s.name().into(), kind, codec: Codec::Native, bytes: Hex(b.to_vec()), expect: "canonical".into(), note: class },
                });
            }
        }
    };
    for v in valids {
        assert_eq!(v.len(), total, "harness: layout table disagrees with the real encoding of {:?} in {}", kind, s.name());
        // 1. valid round-trips
        out.evals += 1;
        let (acc, bad) = judge_bytes(s, kind, v);
        if !acc || bad.is_some() {
            out.found.push(Found {
                clause: "roundtrip".into(),
                detail: format!("{}: a valid {:?} does not decode to itself: {:?}", s.name(), kind, bad),
                signature: format!("roundtrip:{:?}", kind),
                case: Case::Decode { suite: s.name().into(), kind, codec: Codec::Native, bytes: Hex(v.clone()), expect: "canonical".into(), note: "valid".into() },
            });
        }
        out.evals += 1;
        if let Some(d) = serde_roundtrip(s, kind, v) {
            let sig = format!("roundtrip-serde:{:?}", kind);
            if !out.found.iter().any(|f| f.signature == sig) {
                out.found.push(Found {
                    clause: "roundtrip".into(),
                    detail: format!("{}: {}", s.name(), d),
                    signature: sig,
                    case: Case::Decode { suite: s.name().into(), kind, codec: Codec::Native, bytes: Hex(v.clone()), expect: "canonical".into(), note: "valid-serde".into() },
                });
            }
        }
        // 2. every length 0..len+64
        for len in 0..v.len() {
            test(&mut out, "truncated".into(), format!("len:{:?}:truncated", kind), &v[..len], true);
        }
        for extra in 1..=64usize {
            for mode in 0..3 {
                let mut b = v.clone();
                match mode {
                    0 => b.extend(std::iter::repeat(0u8).take(extra)),
                    1 => b.extend(g.bytes(extra)),
                    _ => {
                        let tail: Vec<u8> = v.iter().rev().take(extra).rev().copied().collect();
                        b.extend(tail);
                    }
                }
                test(&mut out, "extended".into(), format!("len:{:?}:extended", kind), &b, true);
            }
        }
        // 2b. one byte inserted at every offset (00, 01, 02, FF and a seeded value)
        for off in 0..=v.len() {
            for val in [0u8, 1, 2, 0xFF, g.below(256) as u8] {
                let mut b = v.clone();
                b.insert(off, val);
                test(&mut out, "inserted".into(), format!("len:{:?}:inserted", kind), &b, true);
            }
        }
        // 3./4. element and scalar fields
        for f in &fl {
            let Some(grp) = grp_of(s, f.ty) else {
                // opaque byte fields: any substitution must decode and re-encode to itself
                for _ in 0..8 {
                    let mut b = v.clone();
                    let o = f.off + g.below(f.len);
                    b[o] ^= 1 + g.below(255) as u8;
                    test(&mut out, format!("subst_bytes_field:{}", f.name), format!("alias:Bytes:{}:{:?}", f.name, kind), &b, false);
                }
                continue;
            };
            // all 256 values of the leading byte (and of the last byte)
            for val in 0..=255u8 {
                for o in [f.off, f.off + f.len - 1] {
                    if v[o] == val {
                        continue;
                    }
                    let mut b = v.clone();
                    b[o] = val;
                    let which = if o == f.off { format!("lead{val:02x}") } else { "last".to_string() };
                    test(&mut out, format!("leading_or_last_byte:{}", f.name), format!("alias:{:?}:{:?}:{}", f.ty, grp, which), &b, false);
                }
            }
            // substitutions at every offset
            for o in f.off..f.off + f.len {
                let vals: Vec<u8> = if thorough { (1..=255u8).collect() } else { (0..12).map(|_| 1 + g.below(255) as u8).collect() };
                for d in vals {
                    let mut b = v.clone();
                    b[o] ^= d;
                    let which = if o == f.off { format!("lead{:02x}", b[o]) } else { "inner".to_string() };
                    test(&mut out, format!("subst:{}", f.name), format!("alias:{:?}:{:?}:{}", f.ty, grp, which), &b, false);
                }
            }
            // non-reduced scalars: value + k*order where it fits
            if matches!(f.ty, FieldTy::OprfScalar | FieldTy::KeSk) {
                let cat = catalog::load(&ctx.verif_dir, grp);
                if let Some(ord) = cat.order_bytes() {
                    let mut cur = v[f.off..f.off + f.len].to_vec();
                    for k in 1..=8 {
                        match cat.add(&cur, &ord) {
                            Some(n) => {
                                cur = n;
                                let mut b = v.clone();
                                b[f.off..f.off + f.len].copy_from_slice(&cur);
                                test(&mut out, format!("scalar_plus_{k}_order:{}", f.name), format!("alias:{:?}:{:?}:plus_order", f.ty, grp), &b, false);
                            }
                            None => break,
                        }
                    }
                }
            }
            // Curve25519 / ristretto top-bit twins
            if matches!(grp, Grp::Curve25519 | Grp::Ristretto255) {
                let mut b = v.clone();
                b[f.off + f.len - 1] ^= 0x80;
                test(&mut out, format!("top_bit_twin:{}", f.name), format!("alias:{:?}:{:?}:topbit", f.ty, grp), &b, false);
            }
        }
        // opaque-ke's own serde impls (key-exchange public and private keys) route through the
        // same group decoders: an alias accepted there is an alias of the stored state too
        if let Ok(item) = s.decode(kind, Codec::Native, v) {
            for codec in [Codec::Bincode, Codec::Json] {
                let Ok(enc) = s.encode(&item, codec) else { continue };
                for f in &fl {
                    // key-exchange keys go through opaque-ke's own serde impls, OPRF elements and
                    // scalars through voprf's: either way the stored/transported form of the
                    // message or state has to be the one accepted form
                    let Some(grp) = grp_of(s, f.ty) else { continue };
                    let good = &v[f.off..f.off + f.len];
                    let mut cands: Vec<(String, Vec<u8>)> = vec![];
                    for val in 0..=255u8 {
                        for o in [0, f.len - 1] {
                            if good[o] != val {
                                let mut b = good.to_vec();
                                b[o] = val;
                                cands.push((if o == 0 { format!("lead{val:02x}") } else { "last".into() }, b));
                            }
                        }
                    }
                    if matches!(f.ty, FieldTy::KeSk | FieldTy::OprfScalar) {
                        let cat = catalog::load(&ctx.verif_dir, grp);
                        if let Some(ord) = cat.order_bytes() {
                            if let Some(n) = cat.add(good, &ord) {
                                cands.push(("plus_order".into(), n));
                            }
                        }
                    }
                    for (which, bad) in cands {
                        let Some(planted) = crate::checks::c11::plant(codec, &enc, good, &bad) else { continue };
                        out.evals += 1;
                        if let Ok(it) = s.decode(kind, codec, &planted) {
                            out.accepted += 1;
                            let re = s.encode(&it, codec).unwrap_or_default();
                            if re != planted {
                                let sig = format!("alias_serde:{:?}:{:?}:{}", f.ty, grp, which);
                                if !out.found.iter().any(|x| x.signature == sig) {
                                    out.found.push(Found {
                                        clause: "non_canonical_accepted".into(),
                                        detail: format!("{} [{:?} via {:?}, field {}] the serde decoder accepted a key / element / scalar encoding that re-encodes differently ({})", s.name(), kind, codec, f.name, which),
                                        signature: sig,
                                        case: Case::Decode { suite: s.name().into(), kind, codec, bytes: Hex(planted), expect: "canonical".into(), note: "serde".into() },
                                    });
                                }
                            }
                        }
                    }
                }
            }
        }
        if out.sample.is_none() {
            out.sample = Some(json!({"suite": s.name(), "decoder": format!("{:?}", kind), "valid_len": v.len(), "fields": fl.iter().map(|f| f.name).collect::<Vec<_>>(), "valid": crate::hexs::abbrev(v)}));
        }
    }
    out
}

pub fn run(ctx: &Ctx) -> Report {
    let mut rep = Report::new(
        "for each of the 20 suites x 11 native decoders, from valid encodings harvested from a seeded honest run: truncation to every length, extension by 1..64 bytes (zero / random / own tail), one byte inserted at every offset, all 256 values of the first and last byte of every group-element and scalar field, substitutions at every offset of those fields (quick: 12 seeded values per offset; thorough: all 255), 8 seeded substitutions per opaque field, scalar + k*order while it fits, top-bit twins for the 25519 groups; plus, through bincode and JSON, all 256 values of the first and last byte (and +order) of every key-exchange public/private key field (opaque-ke's own serde impls) and of every OPRF element and scalar field (carried as bytes by voprf's serde impls). Oracle: decode Ok => re-encode == input (and length == the fixed length). distinct = (suite, decoder, mutation class, accepted?) combinations",
    );
    rep.exhaustive = Some(true);
    let suites: Vec<&'static dyn SuiteOps> = SIM_SUITES.to_vec();
    let mut jobs = vec![];
    for si in 0..suites.len() {
        for k in NATIVE_DECODERS {
            jobs.push((si, k));
        }
    }
    let thorough = !ctx.quick();
    let outs = par_map(jobs.len(), ctx.threads, |i| job(ctx, suites[jobs[i].0], jobs[i].1, thorough));
    let mut accepted = 0;
    for o in outs {
        rep.evaluations += o.evals;
        accepted += o.accepted;
        for s in o.shapes {
            rep.shapes.insert(s);
        }
        for f in o.found {
            rep.add_found(f);
        }
        if let Some(s) = o.sample {
            rep.sample(s);
        }
    }
    for s in &suites {
        rep.suites.insert(s.name().into());
    }
    rep.worlds = jobs.len() as u64;
    rep.extra.insert("decodes_accepted".into(), json!(accepted));
    rep.stats.faults.insert("truncate_extend_substitute (per decode)", rep.evaluations);
    rep
}

/// replay of a Decode case with expectation "canonical"
pub fn replay_decode_serde(suite: &str, kind: Kind, codec: Codec, bytes: &[u8]) -> Option<String> {
    let s = crate::suite::suite_by_name(suite)?;
    let it = s.decode(kind, codec, bytes).ok()?;
    let re = s.encode(&it, codec).ok()?;
    if re != bytes {
        Some("the serde decoder accepted a key / element / scalar encoding that re-encodes differently".into())
    } else {
        None
    }
}

/// a valid value stored through bincode / JSON and loaded again is the same value
pub fn serde_roundtrip(s: &dyn SuiteOps, kind: Kind, native: &[u8]) -> Option<String> {
    let item = s.decode(kind, Codec::Native, native).ok()?;
    for c in [Codec::Bincode, Codec::Json] {
        let enc = match s.encode(&item, c) {
            Ok(e) => e,
            Err(f) if f.is_panic() => continue, // C12's business
            Err(f) => return Some(format!("a valid {kind:?} cannot be stored through {c:?}: {}", f.short())),
        };
        let back = match s.decode(kind, c, &enc) {
            Ok(b) => b,
            Err(f) if f.is_panic() => continue,
            Err(f) => return Some(format!("a valid {kind:?} stored through {c:?} does not load again: {}", f.short())),
        };
        match s.encode(&back, Codec::Native) {
            Ok(n) if n == native => {}
            Ok(n) => {
                let off = n.iter().zip(native.iter()).position(|(x, y)| x != y).unwrap_or(n.len().min(native.len()));
                return Some(format!("a valid {kind:?} stored through {c:?} and loaded again is another value: its encoding differs first at offset {off} ({} vs {} bytes)", n.len(), native.len()));
            }
            Err(_) => {}
        }
    }
    None
}

pub fn replay_decode(suite: &str, kind: Kind, bytes: &[u8], note: &str) -> Option<String> {
    let s = crate::suite::suite_by_name(suite)?;
    if note == "valid-serde" {
        return serde_roundtrip(s, kind, bytes);
    }
    let total = crate::layout::total_len(kind, &s.lens());
    let (acc, bad) = judge_bytes(s, kind, bytes);
    if note == "valid" && !acc {
        return Some("a valid encoding produced by serialize() is rejected by deserialize()".into());
    }
    match (acc, bad) {
        (true, Some(d)) => Some(d),
        (true, None) if bytes.len() != total => Some(format!("accepted a {}-byte input, fixed length is {}", bytes.len(), total)),
        _ => None,
    }
}

//! C09 — byte-exact conformance to RFC 9807 / RFC 9497.
//! Refinement of every recorded step against Model B (src/spec.rs), which is
//! independent of opaque-ke and voprf and is believed only after it has
//! reproduced the RFC's own vectors. The random choices are taken as
//! witnesses from the serialized states/messages; hidden ones (ephemeral
//! seeds, the fake masking key) are searched among the recorded draws by value.

use std::collections::BTreeMap;

use crate::driver::{Ctx, Report};
use crate::gen::*;
use crate::rng::Gen;
use crate::seams::simksf_eval;
use crate::spec::{grp, SuiteB};
use crate::suite::{all_suites, suite_by_name, KsfArg, KsfFamily, SuiteOps};
use crate::world::{ksf_effective, Id, IdSpec, Op, Ref, RunResult, Violation, WIds, World};

pub const OWN: &[&str] = &["spec_mismatch"];

/// byte strings compared with the specification (coverage counter)
pub static COMPARED: std::sync::atomic::AtomicU64 = std::sync::atomic::AtomicU64::new(0);
fn compared(n: u64) {
    COMPARED.fetch_add(n, std::sync::atomic::Ordering::Relaxed);
}

fn stretch(fam: KsfFamily, arg: &KsfArg, y: &[u8]) -> Vec<u8> {
    match ksf_effective(arg, fam) {
        KsfArg::Sim(t) => simksf_eval(t, y, y.len()),
        KsfArg::Identity => y.to_vec(),
        KsfArg::Argon2Alg { alg, v10, m, t, p } => {
            let a = argon2::Argon2::new(
                match alg {
                    0 => argon2::Algorithm::Argon2d,
                    1 => argon2::Algorithm::Argon2i,
                    _ => argon2::Algorithm::Argon2id,
                },
                if v10 { argon2::Version::V0x10 } else { argon2::Version::V0x13 },
                argon2::Params::new(m, t, p, None).unwrap(),
            );
            let mut out = vec![0u8; y.len()];
            a.hash_password_into(y, &[0u8; argon2::RECOMMENDED_SALT_LEN], &mut out).unwrap();
            out
        }
        _ => unreachable!(),
    }
}

struct SetupB {
    seed: Vec<u8>,
    sk: Vec<u8>,
    fake_sk: Vec<u8>,
    pk: Vec<u8>,
}
struct CliB {
    r: Vec<u8>,
    ke1: Vec<u8>,
    esk: Vec<u8>,
}
struct SessB {
    session_key: Vec<u8>,
}

pub fn judge(w: &World, r: &RunResult) -> Vec<Violation> {
    let s = suite_by_name(&w.suite).unwrap();
    let b = SuiteB { oprf: s.oprf(), ke: s.ke() };
    let fam = s.ksf_family();
    let (nh, noe, nok, npk, nsk) = (b.nh(), b.noe(), b.nok(), b.npk(), b.nsk());
    let mut v: Vec<Violation> = vec![];
    let mut bytes: BTreeMap<Id, Vec<u8>> = BTreeMap::new(); // native bytes of every item
    let mut setups: BTreeMap<Id, SetupB> = BTreeMap::new();
    let mut regst: BTreeMap<Id, Vec<u8>> = BTreeMap::new(); // client reg state -> r
    let mut clis: BTreeMap<Id, CliB> = BTreeMap::new();
    let mut sess: BTreeMap<Id, SessB> = BTreeMap::new(); // server state id -> expected
    let mut fin_key: BTreeMap<Id, Vec<u8>> = BTreeMap::new();
    let item = |r: &Ref| -> Option<Id> {
        match r {
            Ref::Item { id, .. } => Some(*id),
            _ => None,
        }
    };
    // the bytes a reference delivers: an item's native bytes, or literal native bytes
    let ref_bytes = |r: &Ref, bytes: &BTreeMap<Id, Vec<u8>>| -> Option<Vec<u8>> {
        match r {
            Ref::Item { id, .. } => bytes.get(id).cloned(),
            Ref::Lit { codec: crate::suite::Codec::Native, bytes: b, .. } => Some(b.0.clone()),
            _ => None,
        }
    };
    macro_rules! bad {
        ($i:expr, $what:expr, $got:expr, $exp:expr) => {
            v.push(Violation {
                clause: "spec_mismatch",
                op: $i,
                detail: format!("{} ({}): {} differs from the RFC value: implementation {} / specification {}", w.ops[$i].name(), w.suite, $what, crate::hexs::abbrev($got), crate::hexs::abbrev($exp)),
            })
        };
    }
    for (i, (op, e)) in w.ops.iter().zip(r.events.iter()).enumerate() {
        if e.skipped {
            continue;
        }
        let outs: BTreeMap<&str, Vec<u8>> = match &e.res {
            Ok(o) => o.iter().map(|(n, h)| (*n, h.0.clone())).collect(),
            Err(f) => {
                // in the honest worlds every input is one the specification defines a result for
                if !w.note.starts_with("c09 crafted") && !f.is_panic() && !matches!(op, Op::LoginFinish { .. } | Op::ServerFinish { .. }) {
                    v.push(Violation { clause: "spec_mismatch", op: i, detail: format!("{} ({}): the implementation fails ({}) on inputs for which the specification defines a result", op.name(), w.suite, f.short()) });
                }
                BTreeMap::new()
            }
        };
        // hidden random choices are searched by value in every window of the op's tape,
        // so that splitting or merging draws is not an alarm
        let tape: Vec<u8> = e.draws.iter().flat_map(|d| d.0.iter().copied()).collect();
        // candidates: whole draws of that length first (the common case), then every window
        let windows = |n: usize| -> Vec<Vec<u8>> {
            let mut c: Vec<Vec<u8>> = e.draws.iter().filter(|d| d.0.len() == n).map(|d| d.0.clone()).collect();
            if tape.len() >= n {
                c.extend(tape.windows(n).map(|w| w.to_vec()));
            }
            c
        };
        let resolve_ids = |ids: &WIds, bytes: &BTreeMap<Id, Vec<u8>>, setups: &BTreeMap<Id, SetupB>| -> Option<(Option<Vec<u8>>, Option<Vec<u8>>)> {
            let one = |x: &IdSpec| -> Option<Option<Vec<u8>>> {
                Some(match x {
                    IdSpec::Absent => None,
                    IdSpec::Bytes(h) => Some(h.0.clone()),
                    IdSpec::ClientPkOf(id) => Some(bytes.get(id)?[..npk].to_vec()),
                    IdSpec::ServerPkOf(id) => Some(setups.get(id)?.pk.clone()),
                })
            };
            Some((one(&ids.client)?, one(&ids.server)?))
        };
        match op {
            Op::NewSetup { out, hsm, .. } => {
                let Some(st) = outs.get("setup") else { continue };
                let sb = SetupB { seed: st[..nh].to_vec(), sk: st[nh..nh + nsk].to_vec(), fake_sk: st[nh + nsk..].to_vec(), pk: outs["pk"].clone() };
                // how the server generates its long-term keys is outside the property; they are witnesses
                let _ = hsm;
                bytes.insert(*out, st.clone());
                setups.insert(*out, sb);
            }
            Op::RegStart { st, msg, pw, .. } => {
                let (Some(state), Some(m)) = (outs.get("state"), outs.get("msg")) else { continue };
                let rr = state[..nok].to_vec();
                if let Some(exp) = b.blind(&pw.0, &rr) {
                    if &exp != m {
                        bad!(i, "registration request (blind * HashToGroup(password))", m, &exp);
                    }
                    if state[nok..] != exp[..] {
                        bad!(i, "blinded element kept in the client state", &state[nok..].to_vec(), &exp);
                    }
                }
                compared(2);
                regst.insert(*st, rr);
                bytes.insert(*msg, m.clone());
            }
            Op::RegRespond { out, setup, req, cred } => {
                let Some(m) = outs.get("msg") else { continue };
                if let (Some(su), Some(rq)) = (item(setup).and_then(|x| setups.get(&x)), item(req).and_then(|x| bytes.get(&x))) {
                    if let Some(z) = b.oprf_key(&su.seed, &cred.0).and_then(|k| b.blind_evaluate(&k, rq)) {
                        let mut exp = z;
                        exp.extend_from_slice(&su.pk);
                        compared(1);
                        if &exp != m {
                            bad!(i, "registration response (evaluation ‖ server_public_key)", m, &exp);
                        }
                    }
                }
                bytes.insert(*out, m.clone());
            }
            Op::RegFinish { out, st, pw, resp, ids, ksf, .. } => {
                let Some(up) = outs.get("upload") else { continue };
                bytes.insert(*out, up.clone());
                let (Some(rr), Some(rs)) = (item(st).and_then(|x| regst.get(&x)), item(resp).and_then(|x| bytes.get(&x))) else { continue };
                let Some((idu, ids_)) = resolve_ids(ids, &bytes, &setups) else { continue };
                let (z, spk) = (&rs[..noe], &rs[noe..]);
                let Some(y) = b.finalize(&pw.0, rr, z) else { continue };
                if let Some(c) = e.ksf_calls.first() {
                    if c.1 .0 != y {
                        bad!(i, "value handed to the key-stretching function (OPRF Finalize output)", &c.1 .0, &y);
                    }
                }
                let rwd = b.randomized_pwd(&y, &stretch(fam, ksf, &y));
                let n_e = &up[npk + nh..npk + nh + 32];
                let Some(env) = b.envelope(&rwd, n_e, spk, idu.as_deref(), ids_.as_deref()) else { continue };
                let mut exp = env.client_pk.clone();
                exp.extend_from_slice(&env.masking_key);
                exp.extend_from_slice(n_e);
                exp.extend_from_slice(&env.auth_tag);
                if &exp != up {
                    let what = if exp[..npk] != up[..npk] {
                        "registration upload: client_public_key"
                    } else if exp[npk..npk + nh] != up[npk..npk + nh] {
                        "registration upload: masking_key"
                    } else {
                        "registration upload: envelope auth_tag"
                    };
                    bad!(i, what, up, &exp);
                }
                compared(4);
                if outs["export_key"] != env.export_key {
                    bad!(i, "export_key at registration", &outs["export_key"], &env.export_key);
                }
            }
            Op::RegStore { out, upload } => {
                let Some(rec) = outs.get("record") else { continue };
                if let Some(up) = item(upload).and_then(|x| bytes.get(&x)) {
                    if up != rec {
                        bad!(i, "password file (= registration upload)", rec, up);
                    }
                }
                bytes.insert(*out, rec.clone());
            }
            Op::LoginStart { st, msg, pw, .. } => {
                let (Some(state), Some(m)) = (outs.get("state"), outs.get("msg")) else { continue };
                let rr = state[..nok].to_vec();
                let ke1_len = noe + 32 + npk;
                let ke1 = state[nok..nok + ke1_len].to_vec();
                let esk = state[nok + ke1_len..nok + ke1_len + nsk].to_vec();
                let n_c_state = &state[nok + ke1_len + nsk..];
                if &ke1 != m {
                    bad!(i, "KE1 (message vs copy kept in the client state)", m, &ke1);
                }
                if let Some(exp) = b.blind(&pw.0, &rr) {
                    if exp[..] != m[..noe] {
                        bad!(i, "KE1 blinded element", &m[..noe].to_vec(), &exp);
                    }
                }
                if n_c_state != &m[noe..noe + 32] {
                    bad!(i, "client nonce (state vs message)", &n_c_state.to_vec(), &m[noe..noe + 32].to_vec());
                }
                let ws = windows(nsk);
                let mut first: Option<Vec<u8>> = None;
                let hit = ws.iter().filter_map(|d| b.derive_dh_keypair(d)).find(|c| {
                    if first.is_none() {
                        first = Some(c.0.clone());
                    }
                    c.0 == esk
                });
                match hit.as_ref() {
                    Some(c) => {
                        if c.1[..] != m[noe + 32..] {
                            bad!(i, "client ephemeral public key", &m[noe + 32..].to_vec(), &c.1);
                        }
                    }
                    None => bad!(i, "client ephemeral private key (DeriveDiffieHellmanKeyPair of a drawn seed)", &esk, &first.clone().unwrap_or_default()),
                }
                compared(5);
                clis.insert(*st, CliB { r: rr, ke1: ke1.clone(), esk });
                bytes.insert(*msg, m.clone());
            }
            Op::LoginRespond { st, msg, setup, record, req, cred, ctx, ids, .. } => {
                let (Some(state), Some(m)) = (outs.get("state"), outs.get("msg")) else { continue };
                bytes.insert(*msg, m.clone());
                let (Some(su), Some(ke1)) = (item(setup).and_then(|x| setups.get(&x)), ref_bytes(req, &bytes)) else { continue };
                let Some((idu, ids_)) = resolve_ids(ids, &bytes, &setups) else { continue };
                let rec = match record {
                    None => None,
                    Some(rf) => match ref_bytes(rf, &bytes) {
                        Some(x) => Some(x),
                        None => continue,
                    },
                };
                let z = &m[..noe];
                let n_m = &m[noe..noe + 32];
                let ml = npk + 32 + nh;
                let masked = &m[noe + 32..noe + 32 + ml];
                let n_s = &m[noe + 32 + ml..noe + 64 + ml];
                let epk_s = &m[noe + 64 + ml..noe + 64 + ml + npk];
                let mac = &m[noe + 64 + ml + npk..];
                if let Some(ez) = b.oprf_key(&su.seed, &cred.0).and_then(|k| b.blind_evaluate(&k, &ke1[..noe])) {
                    if ez != z {
                        bad!(i, "credential response: evaluation element", &z.to_vec(), &ez);
                    }
                }
                let (client_pk, masking_key, envelope) = match &rec {
                    Some(rb) => (rb[..npk].to_vec(), rb[npk..npk + nh].to_vec(), rb[npk + nh..].to_vec()),
                    None => {
                        let fpk = grp::base_mul(b.ke, &su.fake_sk).unwrap_or_default();
                        let zeros = vec![0u8; 32 + nh];
                        let ws = windows(nh);
                        let key = ws.iter().find(|d| b.masked_response(d, n_m, &su.pk, &zeros) == masked);
                        match key {
                            Some(k) => (fpk, k.clone(), zeros),
                            None => {
                                bad!(i, "fake credential response: masked_response is not Pad(random key, nonce) XOR (server_public_key ‖ 0…0)", &masked.to_vec(), &vec![]);
                                continue;
                            }
                        }
                    }
                };
                let em = b.masked_response(&masking_key, n_m, &su.pk, &envelope);
                if em != masked {
                    bad!(i, "credential response: masked_response", &masked.to_vec(), &em);
                }
                let Some((esk_s, _)) = windows(nsk).iter().filter_map(|d| b.derive_dh_keypair(d)).find(|c| c.1 == epk_s) else {
                    bad!(i, "server ephemeral public key (DeriveDiffieHellmanKeyPair of a drawn seed)", &epk_s.to_vec(), &vec![]);
                    continue;
                };
                let eff_u = idu.unwrap_or_else(|| client_pk.clone());
                let eff_s = ids_.unwrap_or_else(|| su.pk.clone());
                let c = ctx.as_ref().map(|x| x.0.clone()).unwrap_or_default();
                let pre = b.preamble(&c, &eff_u, &ke1, &eff_s, &m[..noe + 32 + ml], n_s, epk_s);
                let epk_c = &ke1[noe + 32..];
                let (Some(d1), Some(d2), Some(d3)) = (b.dh(&esk_s, epk_c), b.dh(&su.sk, epk_c), b.dh(&esk_s, &client_pk)) else { continue };
                let ks = b.key_schedule(&d1, &d2, &d3, &pre);
                if ks.server_mac != mac {
                    bad!(i, "KE2 server_mac (transcript, DH triple or key schedule)", &mac.to_vec(), &ks.server_mac);
                }
                // pending state: every Nh-byte chunk is an RFC-named value, and the session key is among them
                let allowed = [&ks.session_key, &ks.km3, &ks.hash_preamble_mac, &ks.client_mac];
                let chunks: Vec<&[u8]> = state.chunks(nh).collect();
                if state.len() % nh != 0 || chunks.iter().any(|ch| !allowed.iter().any(|a| a.as_slice() == *ch)) || !chunks.iter().any(|ch| *ch == ks.session_key.as_slice()) {
                    bad!(i, "server pending-login state (must consist of session_key, Km3 / expected client MAC, Hash(preamble ‖ server_mac))", state, &[ks.km3.clone(), ks.hash_preamble_mac.clone(), ks.session_key.clone()].concat());
                }
                compared(5);
                sess.insert(*st, SessB { session_key: ks.session_key.clone() });
            }
            Op::LoginFinish { out, st, pw, resp, ctx, ids, ksf } => {
                let (Some(cl), Some(m)) = (item(st).and_then(|x| clis.get(&x)), item(resp).and_then(|x| bytes.get(&x))) else { continue };
                let Some((idu, ids_)) = resolve_ids(ids, &bytes, &setups) else { continue };
                // Model B's client
                let ml = npk + 32 + nh;
                let z = &m[..noe];
                let n_m = &m[noe..noe + 32];
                let masked = &m[noe + 32..noe + 32 + ml];
                let n_s = &m[noe + 32 + ml..noe + 64 + ml];
                let epk_s = &m[noe + 64 + ml..noe + 64 + ml + npk];
                let mac = &m[noe + 64 + ml + npk..];
                let Some(y) = b.finalize(&pw.0, &cl.r, z) else { continue };
                if let Some(c) = e.ksf_calls.first() {
                    if c.1 .0 != y {
                        bad!(i, "value handed to the key-stretching function (OPRF Finalize output)", &c.1 .0, &y);
                    }
                }
                let rwd = b.randomized_pwd(&y, &stretch(fam, ksf, &y));
                let mk = b.h().hkdf_expand(&rwd, &[b"MaskingKey"], nh);
                let plain = b.masked_response(&mk, n_m, &masked[..npk], &masked[npk..]); // XOR is an involution
                let (spk, env_bytes) = (&plain[..npk], &plain[npk..]);
                let n_e = &env_bytes[..32];
                let spec_ok = (|| {
                    let env = b.envelope(&rwd, n_e, spk, idu.as_deref(), ids_.as_deref())?;
                    if env.auth_tag != env_bytes[32..] {
                        return None;
                    }
                    let eff_u = idu.clone().unwrap_or_else(|| env.client_pk.clone());
                    let eff_s = ids_.clone().unwrap_or_else(|| spk.to_vec());
                    let c = ctx.as_ref().map(|x| x.0.clone()).unwrap_or_default();
                    let pre = b.preamble(&c, &eff_u, &cl.ke1, &eff_s, &m[..noe + 32 + ml], n_s, epk_s);
                    let ks = b.key_schedule(&b.dh(&cl.esk, epk_s)?, &b.dh(&cl.esk, spk)?, &b.dh(&env.client_sk, epk_s)?, &pre);
                    if ks.server_mac != mac {
                        return None;
                    }
                    Some((ks, env))
                })();
                compared(5);
                match (&e.res, spec_ok) {
                    (Ok(_), Some((ks, env))) => {
                        if outs["fin"] != ks.client_mac {
                            bad!(i, "KE3 client_mac", &outs["fin"], &ks.client_mac);
                        }
                        if outs["session_key"] != ks.session_key {
                            bad!(i, "client session_key", &outs["session_key"], &ks.session_key);
                        }
                        if outs["export_key"] != env.export_key {
                            bad!(i, "export_key at login", &outs["export_key"], &env.export_key);
                        }
                        if outs["server_pk"][..] != *spk {
                            bad!(i, "server_public_key recovered at login", &outs["server_pk"], &spk.to_vec());
                        }
                        fin_key.insert(*out, ks.session_key.clone());
                        bytes.insert(*out, outs["fin"].clone());
                    }
                    (Ok(_), None) => v.push(Violation { clause: "spec_mismatch", op: i, detail: format!("LoginFinish ({}): the implementation accepts a response that the specification's client rejects (envelope tag or server MAC does not verify under the RFC formulas)", w.suite) }),
                    (Err(f), Some(_)) if !f.is_panic() => v.push(Violation { clause: "spec_mismatch", op: i, detail: format!("LoginFinish ({}): the implementation rejects ({}) a response that the specification's client accepts", w.suite, f.short()) }),
                    _ => {}
                }
            }
            Op::ServerFinish { st, fin } => {
                if let (Ok(_), Some(se), Some(_)) = (&e.res, item(st).and_then(|x| sess.get(&x)), item(fin).and_then(|x| fin_key.get(&x))) {
                    if outs["session_key"] != se.session_key {
                        bad!(i, "server session_key", &outs["session_key"], &se.session_key);
                    }
                }
            }
            _ => {}
        }
        if v.len() > 8 {
            break;
        }
    }
    v
}

pub fn gen_world(seed: u64, idx: u64, s: &dyn SuiteOps, cover: usize) -> World {
    // C01's honest worlds (all parameter classes) ...
    let mut w = super::c01::gen_world(seed, idx, s, cover);
    // ... plus logins without a password file (the RFC's fake-record path), appended
    let mut g = Gen::new(seed, &format!("gen/c09/{}/{}", s.name(), idx));
    let setup = match w.ops.first() {
        Some(Op::NewSetup { out, .. }) => *out,
        _ => return w,
    };
    let mut b = WB::new(s, seed, idx, "c09 = c01 honest worlds + no-record logins, delivered in memory");
    // fresh ids above the ones already used
    b.bump(10_000);
    let cred = small_cred(&mut g);
    let pw = small_pw(&mut g);
    let ctx = if g.chance(1, 2) { Some(b"fake".to_vec()) } else { None };
    let ids = if g.chance(1, 2) { WIds::default() } else { WIds { client: IdSpec::Bytes(b"nobody".to_vec().into()), server: IdSpec::Bytes(b"srv".to_vec().into()) } };
    let (_, mut ops) = b.login_ops(&mut g, setup, None, &pw, &pw, &cred, ctx.clone(), ctx, ids.clone(), ids, KsfArg::Absent, false);
    ops.pop();
    for op in w.ops.iter_mut() {
        // the model reads item bytes by id: deliver in memory (codecs are C13's business)
        let _ = op;
    }
    w.ops.extend(ops);
    w.note = b.w.note;
    w
}

/// Crafted-but-acceptable inputs to the server: the honest KE1 / password file with one
/// field replaced by another valid value (a key share that is the server's own public key,
/// a blinded element that is some other group element, nonces 00…/FF…, and for the
/// Curve25519 key-exchange group key shares and client public keys with a small-order
/// component added, which RFC 7748's X25519 must clear). Two phases: the honest prefix is
/// run once to learn the bytes, then every variant is answered by the server and the
/// answer recomputed by Model B.
pub fn crafted_world(seed: u64, idx: u64, s: &dyn SuiteOps) -> World {
    let mut g = Gen::new(seed, &format!("gen/c09/crafted/{}/{}", s.name(), idx));
    let mut b = WB::new(s, seed, idx, "c09 crafted-but-acceptable requests and password files");
    let lens = s.lens();
    let setup = b.setup(false);
    let pw = small_pw(&mut g);
    let cred = small_cred(&mut g);
    let ksf = gen_ksf(&mut g, s.ksf_family(), true);
    let (r, ops) = b.reg_ops(&mut g, setup, &pw, &pw, &cred, WIds::default(), ksf, false);
    for o in ops {
        b.push(o);
    }
    let (cst, rq) = (b.id(), b.id());
    let tape = b.tape("loginstart");
    b.push(Op::LoginStart { st: cst, msg: rq, tape, pw: pw.clone().into() });
    let r1 = crate::world::run_world(&b.w);
    let out_of = |name: &str, key: &str| -> Option<Vec<u8>> {
        r1.events.iter().rev().find(|e| e.name == name).and_then(|e| e.res.as_ref().ok()).and_then(|o| o.iter().find(|x| x.0 == key)).map(|x| x.1 .0.clone())
    };
    let (Some(ke1), Some(rec), Some(regresp)) = (out_of("LoginStart", "msg"), out_of("RegStore", "record"), out_of("RegRespond", "msg")) else {
        return b.w;
    };
    let (noe, npk) = (lens.noe, lens.npk);
    let mut reqs: Vec<Vec<u8>> = vec![];
    let mut recs: Vec<Vec<u8>> = vec![];
    let with = |base: &[u8], off: usize, val: &[u8]| {
        let mut x = base.to_vec();
        x[off..off + val.len()].copy_from_slice(val);
        x
    };
    // key share := the server's static public key / the client's static public key
    reqs.push(with(&ke1, noe + 32, &regresp[noe..noe + npk]));
    reqs.push(with(&ke1, noe + 32, &rec[..npk]));
    // blinded element := the evaluated element of the registration
    reqs.push(with(&ke1, 0, &regresp[..noe]));
    // nonces
    reqs.push(with(&ke1, noe, &[0u8; 32]));
    reqs.push(with(&ke1, noe, &[0xFFu8; 32]));
    // password file whose client public key is the server's public key
    recs.push(with(&rec, 0, &regresp[noe..noe + npk]));
    if s.ke() == crate::suite::Grp::Curve25519 {
        use curve25519_dalek::{constants::EIGHT_TORSION, montgomery::MontgomeryPoint};
        let twist = |u: &[u8], i: usize| -> Option<Vec<u8>> {
            let mut a = [0u8; 32];
            a.copy_from_slice(u);
            let e = MontgomeryPoint(a).to_edwards((i % 2) as u8)?;
            Some((e + EIGHT_TORSION[i]).to_montgomery().to_bytes().to_vec())
        };
        // a key share with bit 255 set: X25519 ignores the bit, the transcript must not
        let mut top = ke1[noe + 32..].to_vec();
        top[31] ^= 0x80;
        reqs.push(with(&ke1, noe + 32, &top));
        for i in 1..8 {
            if let Some(t) = twist(&ke1[noe + 32..], i) {
                reqs.push(with(&ke1, noe + 32, &t));
            }
            if let Some(t) = twist(&rec[..npk], i) {
                recs.push(with(&rec, 0, &t));
            }
        }
    }
    let ctx = if g.chance(1, 2) { Some(b"crafted".to_vec()) } else { None };
    let mut respond = |b: &mut WB, req: Ref, record: Option<Ref>| {
        let (st, msg) = (b.id(), b.id());
        let tape = b.tape("loginrespond");
        b.push(Op::LoginRespond { st, msg, tape, setup: Ref::mem(setup), record, req, cred: cred.clone().into(), ctx: ctx.clone().map(Into::into), ids: WIds::default() });
    };
    for q in &reqs {
        respond(&mut b, Ref::lit(crate::suite::Kind::CredReq, q.clone()), Some(Ref::mem(r.record)));
        respond(&mut b, Ref::lit(crate::suite::Kind::CredReq, q.clone()), None);
    }
    for x in &recs {
        respond(&mut b, Ref::mem(rq), Some(Ref::lit(crate::suite::Kind::PwFile, x.clone())));
    }
    b.w
}

pub fn run(ctx: &Ctx) -> Report {
    let mut rep = Report::new(
        "C01's honest worlds (password 0..65535 bytes x 6 content classes, credential id 0..70000, identities absent / explicit-default / one-sided / empty / 255 / 256 / 65535, context up to 65535, KSF absent/explicit for SimKsf, Identity and Argon2) plus no-record logins, on all 44 suite instantiations; every op is recomputed by Model B from the witnesses in the serialized states/messages and the recorded draws: setup keys (DeriveDiffieHellmanKeyPair of drawn seeds), registration request/response/upload, password file, export key, KE1, credential response (evaluation, masked response incl. the fake path, server MAC), pending server state (chunk-set of RFC-named values), KE3, session keys, the value handed to the KSF, and accept/reject of the client. Model B must first reproduce the 9 RFC 9807 vectors (else exit 2). Plus crafted-but-acceptable inputs to the server (KE1 whose key share is the server's or the client's static key, whose blinded element is another group element, nonces 00/FF; a password file whose client key is the server's; on the Curve25519 group, key shares and client public keys with each of the 7 small-order components added, which X25519 must clear): every answer recomputed by Model B. Every world is non-trivial: each compares dozens of byte strings with an independent specification",
    );
    match crate::spec_vectors::check_all(&ctx.verif_dir) {
        Ok(n) => {
            rep.extra.insert("rfc_vectors_reproduced_by_model_b".into(), serde_json::json!(n));
        }
        Err(e) => {
            for l in e {
                println!("HARNESS-ERROR: Model B does not reproduce the RFC vectors: {l}");
            }
            std::process::exit(2);
        }
    }
    let suites = all_suites();
    let per = ctx.pick(24, 1200);
    let per_argon = ctx.pick(3, 40);
    let mut jobs: Vec<(usize, u64)> = vec![];
    for (si, s) in suites.iter().enumerate() {
        let n = if s.ksf_family() == KsfFamily::Argon2 { per_argon } else { per };
        for k in 0..n {
            jobs.push((si, k as u64));
        }
    }
    let seed = ctx.seed;
    let gen = |i: usize| {
        let (si, k) = jobs[i];
        gen_world(seed, k, suites[si], k as usize)
    };
    super::world_batch(ctx, &mut rep, jobs.len(), &gen, OWN, true, Some(&judge));
    // crafted-but-acceptable inputs to the server, recomputed by Model B
    let cper = ctx.pick(2, 60);
    let cjobs: Vec<(usize, u64)> = suites.iter().enumerate().filter(|(_, s)| s.ksf_family() != KsfFamily::Argon2).flat_map(|(si, _)| (0..cper).map(move |k| (si, k as u64))).collect();
    let cgen = |i: usize| {
        let (si, k) = cjobs[i];
        crafted_world(seed, k, suites[si])
    };
    super::world_batch(ctx, &mut rep, cjobs.len(), &cgen, OWN, true, Some(&judge));
    rep.extra.insert("byte_strings_compared_with_model_b".into(), serde_json::json!(COMPARED.load(std::sync::atomic::Ordering::Relaxed)));
    rep.assumptions.push("Nseed := Nsk of the key-exchange group (DESIGN.md Appendix A): for the RFC's own configurations this equals the RFC's 32".into());
    rep.assumptions.push("Model B trusts the curve crates for group arithmetic and the NIST hash-to-curve map, sha2 for hashing, argon2 for the Argon2 instances".into());
    rep
}

//! Batch driver shared by all checks: tiers, seeds, worker pool (parallel
//! across worlds, merged in index order), replay files, shrinking, known
//! findings and evidence files.

use std::collections::{BTreeMap, BTreeSet};
use std::path::PathBuf;
use std::sync::atomic::{AtomicUsize, Ordering};
use std::sync::Mutex;
use std::time::Instant;

use serde::{Deserialize, Serialize};
use serde_json::{json, Value};

use crate::hexs::Hex;
use crate::suite::{Codec, Kind};
use crate::world::{run_world, RunResult, Stats, Violation, World};

#[derive(Clone, Copy, PartialEq, Eq, Debug)]
pub enum Tier {
    Quick,
    Thorough,
}

pub struct Ctx {
    pub id: &'static str,
    pub tier: Tier,
    pub seed: u64,
    pub threads: usize,
    pub start: Instant,
    pub verif_dir: PathBuf,
}

impl Ctx {
    pub fn quick(&self) -> bool {
        self.tier == Tier::Quick
    }
    pub fn pick<T>(&self, q: T, t: T) -> T {
        if self.quick() {
            q
        } else {
            t
        }
    }
}

/// Run `f(i)` for i in 0..n on the worker pool; results come back in index
/// order, so nothing observable depends on thread timing.
pub fn par_map<T: Send>(n: usize, threads: usize, f: impl Fn(usize) -> T + Sync) -> Vec<T> {
    let next = AtomicUsize::new(0);
    let out: Mutex<Vec<Option<T>>> = Mutex::new((0..n).map(|_| None).collect());
    std::thread::scope(|sc| {
        for _ in 0..threads.max(1).min(n.max(1)) {
            sc.spawn(|| loop {
                let i = next.fetch_add(1, Ordering::Relaxed);
                if i >= n {
                    break;
                }
                let r = f(i);
                out.lock().unwrap()[i] = Some(r);
            });
        }
    });
    out.into_inner()
        .unwrap()
        .into_iter()
        .map(|x| x.expect("worker result"))
        .collect()
}

// ------------------------------------------------------------------ replay cases

/// What a replay file holds: one explicit, self-contained failing case.
#[derive(Clone, Debug, Serialize, Deserialize)]
pub enum Case {
    /// an explicit world (op list) judged by Model A and the property's clauses
    World(World),
    /// bytes handed to one decoder
    Decode {
        suite: String,
        kind: Kind,
        codec: Codec,
        bytes: Hex,
        /// "canonical" (C10), "reject" (C11), "nopanic" (C12)
        expect: String,
        note: String,
    },
    /// free-form case handled by the owning check (`mode` selects the routine)
    Custom { mode: String, params: Value },
}

#[derive(Clone, Debug, Serialize, Deserialize)]
pub struct ReplayFile {
    pub property: String,
    pub clause: String,
    pub detail: String,
    pub seed: u64,
    pub case: Case,
    /// stable identity of the defect this case demonstrates, matched against
    /// /verif/known_findings.json
    pub signature: String,
}

#[derive(Clone, Debug)]
pub struct Found {
    pub clause: String,
    pub detail: String,
    pub signature: String,
    pub case: Case,
}

// ------------------------------------------------------------------ known findings

#[derive(Clone, Debug, Deserialize)]
pub struct KnownEntry {
    pub property: String,
    /// "known" suppresses (prints KNOWN-FINDING, exit unaffected); "fixed" suppresses nothing
    pub status: String,
    /// exact signature, or a prefix ending in '*'
    pub signature: String,
    pub what: String,
    #[serde(default)]
    pub commit: String,
}

pub fn load_known(dir: &std::path::Path) -> Vec<KnownEntry> {
    let p = dir.join("known_findings.json");
    match std::fs::read(&p) {
        Ok(b) => {
            let v: Value = serde_json::from_slice(&b).expect("known_findings.json: bad JSON");
            serde_json::from_value(v["findings"].clone()).expect("known_findings.json: bad shape")
        }
        Err(_) => vec![],
    }
}

fn sig_match(pat: &str, sig: &str) -> bool {
    if let Some(p) = pat.strip_suffix('*') {
        sig.starts_with(p)
    } else {
        pat == sig
    }
}

// ------------------------------------------------------------------ the per-check report

pub struct Report {
    pub evaluations: u64,
    pub shapes: BTreeSet<u64>,
    pub rule: String,
    pub samples: Vec<Value>,
    pub exhaustive: Option<bool>,
    pub stats: Stats,
    pub found: Vec<Found>,
    pub cross_notes: BTreeMap<String, u64>,
    pub extra: BTreeMap<String, Value>,
    pub worlds: u64,
    pub steps: u64,
    pub interleavings: BTreeSet<u64>,
    pub states: BTreeSet<u64>,
    pub suites: BTreeSet<String>,
    pub assumptions: Vec<String>,
}

impl Report {
    pub fn new(rule: &str) -> Self {
        Report {
            evaluations: 0,
            shapes: BTreeSet::new(),
            rule: rule.to_string(),
            samples: vec![],
            exhaustive: None,
            stats: Stats::default(),
            found: vec![],
            cross_notes: BTreeMap::new(),
            extra: BTreeMap::new(),
            worlds: 0,
            steps: 0,
            interleavings: BTreeSet::new(),
            states: BTreeSet::new(),
            suites: BTreeSet::new(),
            assumptions: vec![],
        }
    }
    pub fn sample(&mut self, v: Value) {
        if self.samples.len() < 6 {
            self.samples.push(v);
        }
    }
    pub fn add_found(&mut self, f: Found) {
        // one representative per signature
        if !self.found.iter().any(|x| x.signature == f.signature) {
            self.found.push(f);
        }
    }
    pub fn cross(&mut self, clause: &str) {
        *self.cross_notes.entry(clause.to_string()).or_insert(0) += 1;
    }
}

pub fn fnv(data: &[u8]) -> u64 {
    let mut h: u64 = 0xcbf29ce484222325;
    for b in data {
        h ^= *b as u64;
        h = h.wrapping_mul(0x100000001b3);
    }
    h
}

/// Summary of one world run, folded into a report.
pub struct WorldDigest {
    pub shape: u64,
    pub interleaving: u64,
    pub states: Vec<u64>,
    pub nontrivial: bool,
}

pub fn digest(w: &World, r: &RunResult) -> WorldDigest {
    let mut shape = Vec::new();
    let mut inter = Vec::new();
    let mut states = Vec::new();
    let mut acc: BTreeMap<String, u32> = BTreeMap::new();
    shape.extend_from_slice(w.suite.as_bytes());
    let mut nontrivial = false;
    for e in &r.events {
        let oc = match &e.res {
            Ok(_) => "ok".to_string(),
            Err(f) => crate::world::errname(&f.kind),
        };
        let s = format!("{}:{}:{};", e.name, e.predict, oc);
        shape.extend_from_slice(s.as_bytes());
        inter.extend_from_slice(e.name.as_bytes());
        inter.push(e.op as u8);
        if e.predict == "reject" || e.name == "Reload" {
            nontrivial = true;
        }
        *acc.entry(format!("{}:{}", e.name, oc)).or_insert(0) += 1;
        states.push(fnv(format!("{:?}", acc).as_bytes()));
    }
    WorldDigest {
        shape: fnv(&shape),
        interleaving: fnv(&inter),
        states,
        nontrivial,
    }
}

impl Report {
    pub fn fold_world(&mut self, w: &World, r: &RunResult, force_nontrivial: bool) {
        let d = digest(w, r);
        self.worlds += 1;
        self.steps += r.events.len() as u64;
        self.evaluations += r
            .events
            .iter()
            .filter(|e| !e.skipped && e.predict != "-")
            .count() as u64;
        if d.nontrivial || force_nontrivial {
            self.shapes.insert(d.shape);
        }
        self.interleavings.insert(d.interleaving);
        for s in d.states {
            self.states.insert(s);
        }
        self.suites.insert(w.suite.clone());
        self.stats.merge(&r.stats);
    }
}

// ------------------------------------------------------------------ shrinking

/// ddmin-style: delete ops while a violation of the same clause persists.
pub fn shrink_world(w: &World, clause: &str, judge: &dyn Fn(&World) -> Vec<Violation>) -> World {
    let mut cur = w.clone();
    let mut chunk = (cur.ops.len() / 2).max(1);
    let still = |cand: &World| judge(cand).iter().any(|v| v.clause == clause);
    let mut budget = 400usize;
    loop {
        let mut progress = false;
        let mut i = 0;
        while i < cur.ops.len() && budget > 0 {
            let end = (i + chunk).min(cur.ops.len());
            let mut cand = cur.clone();
            cand.ops.drain(i..end);
            budget -= 1;
            if !cand.ops.is_empty() && still(&cand) {
                cur = cand;
                progress = true;
            } else {
                i = end;
            }
        }
        if chunk == 1 && !progress {
            break;
        }
        if !progress {
            chunk = (chunk / 2).max(1);
        }
        if budget == 0 {
            break;
        }
    }
    // drop ops that were skipped as dangling in the final run
    let r = run_world(&cur);
    let skipped: BTreeSet<usize> = r.events.iter().filter(|e| e.skipped).map(|e| e.op).collect();
    if !skipped.is_empty() {
        let mut cand = cur.clone();
        let mut k = 0;
        cand.ops.retain(|_| {
            let keep = !skipped.contains(&k);
            k += 1;
            keep
        });
        if still(&cand) {
            cur = cand;
        }
    }
    cur = shrink_values(&cur, &still);
    cur.note = format!("{} [minimised from {} ops]", cur.note, w.ops.len());
    cur
}

/// Argument shrinking: every distinct long byte-string parameter (password,
/// credential id, context, explicit identity) is replaced *everywhere it
/// occurs* by a short stand-in, so equalities between ops are preserved.
fn shrink_values(w: &World, still: &dyn Fn(&World) -> bool) -> World {
    let mut cur = w.clone();
    let Ok(mut val) = serde_json::to_value(&cur) else { return cur };
    let mut seen: Vec<String> = vec![];
    fn collect(v: &Value, key: Option<&str>, out: &mut Vec<String>) {
        match v {
            Value::Object(m) => {
                for (k, x) in m {
                    collect(x, Some(k), out)
                }
            }
            Value::Array(a) => {
                for x in a {
                    collect(x, key, out)
                }
            }
            Value::String(s) => {
                if matches!(key, Some("pw") | Some("cred") | Some("ctx") | Some("Bytes")) && s.len() > 8 && !out.contains(s) {
                    out.push(s.clone())
                }
            }
            _ => {}
        }
    }
    collect(&val["ops"], None, &mut seen);
    fn subst(v: &mut Value, key: Option<&str>, from: &str, to: &str) {
        match v {
            Value::Object(m) => {
                for (k, x) in m.iter_mut() {
                    let k2 = k.clone();
                    subst(x, Some(&k2), from, to)
                }
            }
            Value::Array(a) => {
                for x in a {
                    subst(x, key, from, to)
                }
            }
            Value::String(s) => {
                if matches!(key, Some("pw") | Some("cred") | Some("ctx") | Some("Bytes")) && s == from {
                    *s = to.to_string()
                }
            }
            _ => {}
        }
    }
    for (n, long) in seen.iter().enumerate().take(24) {
        let short = format!("a{:x}{:02x}", n % 16, (long.len() / 2) % 256);
        let short = if short.len() % 2 == 1 { format!("0{short}") } else { short };
        let mut cand_v = val.clone();
        subst(&mut cand_v["ops"], None, long, &short);
        if let Ok(cand) = serde_json::from_value::<World>(cand_v.clone()) {
            if still(&cand) {
                cur = cand;
                val = cand_v;
            }
        }
    }
    cur
}

// ------------------------------------------------------------------ finishing a check

pub fn replay_dir(ctx: &Ctx) -> PathBuf {
    let d = ctx.verif_dir.join("replays");
    let _ = std::fs::create_dir_all(&d);
    d
}

/// Write evidence, replay files, print VIOLATION / KNOWN-FINDING lines, return exit code.
pub fn finish(ctx: &Ctx, level: &str, mut rep: Report) -> i32 {
    let known = load_known(&ctx.verif_dir);
    let wall = ctx.start.elapsed().as_secs_f64();
    let mut new_violations = 0;
    let mut known_hit: Vec<String> = vec![];
    let mut lines: Vec<String> = vec![];
    for (n, f) in rep.found.iter().enumerate() {
        let k = known
            .iter()
            .find(|k| k.property == ctx.id && k.status == "known" && sig_match(&k.signature, &f.signature));
        if let Some(k) = k {
            let l = format!("KNOWN-FINDING: property={} {} [{}]", ctx.id, k.what, f.signature);
            if !known_hit.contains(&l) {
                known_hit.push(l);
            }
            continue;
        }
        new_violations += 1;
        let path = replay_dir(ctx).join(format!("{}-{}-{}.json", ctx.id, ctx.seed, n));
        let rf = ReplayFile {
            property: ctx.id.to_string(),
            clause: f.clause.clone(),
            detail: f.detail.clone(),
            seed: ctx.seed,
            case: f.case.clone(),
            signature: f.signature.clone(),
        };
        std::fs::write(&path, serde_json::to_vec_pretty(&rf).unwrap()).expect("write replay");
        lines.push(format!(
            "VIOLATION property={} replay={} clause={} signature={} :: {}",
            ctx.id,
            path.display(),
            f.clause,
            f.signature,
            f.detail
        ));
    }
    for l in &known_hit {
        println!("{l}");
    }
    for l in &lines {
        println!("{l}");
    }
    let distinct = rep.shapes.len() as u64;
    let mut cov = serde_json::Map::new();
    cov.insert("evaluations".into(), json!(rep.evaluations));
    cov.insert("distinct_nontrivial".into(), json!(distinct));
    cov.insert("rule".into(), json!(rep.rule));
    if rep.samples.is_empty() {
        rep.samples.push(json!("no sample recorded"));
    }
    cov.insert("samples".into(), json!(rep.samples));
    if let Some(e) = rep.exhaustive {
        cov.insert("exhaustive".into(), json!(e));
    }
    cov.insert("worlds".into(), json!(rep.worlds));
    cov.insert("steps".into(), json!(rep.steps));
    cov.insert(
        "runs_per_hour".into(),
        json!(if wall > 0.0 { (rep.worlds.max(rep.evaluations) as f64 / wall * 3600.0) as u64 } else { 0 }),
    );
    cov.insert("seeds".into(), json!([ctx.seed]));
    cov.insert(
        "simulated_time".into(),
        json!("n/a: the system under test reads no clock; progress is counted in logical steps"),
    );
    cov.insert("faults_fired".into(), json!(rep.stats.faults));
    cov.insert("probes".into(), json!(rep.stats.probes));
    cov.insert("op_counts".into(), json!(rep.stats.ops));
    cov.insert("outcomes".into(), json!(rep.stats.outcomes));
    cov.insert("interleavings_distinct".into(), json!(rep.interleavings.len()));
    cov.insert("abstract_states_distinct".into(), json!(rep.states.len()));
    cov.insert("suites_covered".into(), json!(rep.suites));
    cov.insert("alias_skipped".into(), json!(rep.stats.alias_skipped));
    cov.insert("cross_property_notes".into(), json!(rep.cross_notes));
    cov.insert("known_findings_hit".into(), json!(known_hit));
    cov.insert("panics_seen".into(), json!(rep.stats.panics));
    cov.insert("components".into(), components());
    for (k, v) in rep.extra {
        cov.insert(k, v);
    }
    let mut assumptions = vec![
        "sampling, not proof: a clean batch is evidence for the explored worlds only".to_string(),
        "curve crates (p256/p384/p521, curve25519-dalek), sha2 and the serde codecs are the trusted base".to_string(),
    ];
    assumptions.extend(rep.assumptions);
    let ev = json!({
        "property_id": ctx.id,
        "tier": if ctx.quick() { "quick" } else { "thorough" },
        "seed": ctx.seed,
        "level": level,
        "coverage": Value::Object(cov),
        "assumptions": assumptions,
        "wall_s": wall,
        "violations": new_violations,
    });
    let evdir = ctx.verif_dir.join("evidence");
    let _ = std::fs::create_dir_all(&evdir);
    std::fs::write(
        evdir.join(format!("{}.json", ctx.id)),
        serde_json::to_vec_pretty(&ev).unwrap(),
    )
    .expect("write evidence");
    println!(
        "{}: tier={} seed={} evaluations={} distinct_nontrivial={} worlds={} wall={:.1}s violations={} known={}",
        ctx.id,
        if ctx.quick() { "quick" } else { "thorough" },
        ctx.seed,
        rep.evaluations,
        distinct,
        rep.worlds,
        wall,
        new_violations,
        known_hit.len()
    );
    if new_violations > 0 {
        1
    } else {
        0
    }
}

pub fn components() -> Value {
    json!({
        "real": ["opaque-ke (all of src/, production cfg, overflow-checks+debug-assertions on)", "voprf", "curve25519-dalek", "p256/p384/p521", "hkdf/hmac/sha2", "serde + bincode + serde_json codecs", "ksf::Identity", "argon2::Argon2"],
        "stub": ["randomness (SimRng behind the library's RngCore+CryptoRng parameter)", "network/storage/process lifetime (item pool, codecs, Reload ops)", "external key service (SimHsm delegating arithmetic to PrivateKey)", "key stretching in most suites (SimKsf)"],
        "harness_models": ["Model A (symbolic matched conversation)", "Model B (RFC 9807/9497 transcription)"]
    })
}

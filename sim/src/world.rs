//! Worlds (explicit operation lists), the executor that runs them against the
//! real library, and Model A — the symbolic matched-conversation oracle.
//!
//! A world is *data*: the op list (not the seed) is what is replayed and
//! shrunk. Every byte string that ever existed is addressable, so honest
//! delivery, loss, duplication, replay, cross-delivery, corruption and restart
//! through a codec are all just a choice of reference.

use std::collections::BTreeMap;

use serde::{Deserialize, Serialize};

use crate::hexs::Hex;
use crate::rng::SimRng;
use crate::suite::{
    Codec, ErrKind, Fail, Ids, Item, Kind, KsfArg, KsfFamily, Stage, SuiteOps,
};

pub type Id = u32;

#[derive(Clone, Debug, Serialize, Deserialize, PartialEq, Eq)]
pub enum Tape {
    /// label-derived: independent of everything else in the world
    Own(String),
    /// one stream per name, consumed in schedule order
    Shared(String),
    /// label-derived stream preceded by a scripted prefix (C17)
    Scripted(String, Hex),
}

#[derive(Clone, Debug, Serialize, Deserialize, PartialEq, Eq)]
pub enum Ref {
    /// an item produced earlier, delivered in memory (`Mem`) or through a codec
    Item { id: Id, via: Codec },
    /// literal bytes (a corrupted / forged message or stored state)
    Lit { kind: Kind, codec: Codec, bytes: Hex },
    /// a message the adversary assembles from byte ranges of the native
    /// encodings of messages it has observed (ranges are clipped to the item)
    Splice { kind: Kind, parts: Vec<Part> },
}

#[derive(Clone, Debug, Serialize, Deserialize, PartialEq, Eq)]
pub struct Part {
    pub id: Id,
    pub from: usize,
    pub to: usize,
}

impl Ref {
    pub fn mem(id: Id) -> Ref {
        Ref::Item { id, via: Codec::Mem }
    }
    pub fn via(id: Id, via: Codec) -> Ref {
        Ref::Item { id, via }
    }
    pub fn lit(kind: Kind, b: Vec<u8>) -> Ref {
        Ref::Lit {
            kind,
            codec: Codec::Native,
            bytes: Hex(b),
        }
    }
}

/// An identity parameter as the caller spells it.
#[derive(Clone, Debug, Serialize, Deserialize, PartialEq, Eq, PartialOrd, Ord)]
pub enum IdSpec {
    Absent,
    Bytes(Hex),
    /// explicit spelling of the default: the client static public key stored
    /// in the record / upload held in this slot
    ClientPkOf(Id),
    /// explicit spelling of the default: the public key of the setup in this slot
    ServerPkOf(Id),
}

#[derive(Clone, Debug, Serialize, Deserialize, PartialEq, Eq)]
pub struct WIds {
    pub client: IdSpec,
    pub server: IdSpec,
}

impl Default for WIds {
    fn default() -> Self {
        WIds { client: IdSpec::Absent, server: IdSpec::Absent }
    }
}

#[derive(Clone, Debug, Serialize, Deserialize)]
pub enum Op {
    NewSetup { out: Id, tape: Tape, hsm: bool },
    /// `ServerSetup::new_with_key` on a fresh tape with the (externally held)
    /// static key of another setup
    NewSetupWithKey { out: Id, tape: Tape, sk_from: Id },
    /// the same setup (seed, keys) held the other way: `hsm` = behind the
    /// external-key seam, else directly; built from the stored bytes
    TwinSetup { out: Id, from: Id, hsm: bool },
    /// seed and fake key of `seed_from`, static key of `key_from` (public API:
    /// `ServerSetup::deserialize` of the spliced bytes)
    SpliceSetup { out: Id, seed_from: Id, key_from: Id },
    RegStart { st: Id, msg: Id, tape: Tape, pw: Hex },
    RegRespond { out: Id, setup: Ref, req: Ref, cred: Hex },
    RegFinish { out: Id, tape: Tape, st: Ref, pw: Hex, resp: Ref, ids: WIds, ksf: KsfArg },
    RegStore { out: Id, upload: Ref },
    LoginStart { st: Id, msg: Id, tape: Tape, pw: Hex },
    LoginRespond {
        st: Id,
        msg: Id,
        tape: Tape,
        setup: Ref,
        record: Option<Ref>,
        req: Ref,
        cred: Hex,
        ctx: Option<Hex>,
        ids: WIds,
    },
    LoginFinish { out: Id, st: Ref, pw: Hex, resp: Ref, ctx: Option<Hex>, ids: WIds, ksf: KsfArg },
    ServerFinish { st: Ref, fin: Ref },
    /// the key service rotates its key: every externally held key now operates with the
    /// static key of setup `to` (the setups keep whatever public key they cached)
    RotateHsmKey { to: Id },
    /// crash/restart of the party holding `id`: persist through `codec`, drop
    /// the live object, continue from the stored bytes
    Reload { id: Id, codec: Codec },
}

impl Op {
    pub fn name(&self) -> &'static str {
        match self {
            Op::NewSetup { .. } => "NewSetup",
            Op::NewSetupWithKey { .. } => "NewSetupWithKey",
            Op::SpliceSetup { .. } => "SpliceSetup",
            Op::TwinSetup { .. } => "TwinSetup",
            Op::RegStart { .. } => "RegStart",
            Op::RegRespond { .. } => "RegRespond",
            Op::RegFinish { .. } => "RegFinish",
            Op::RegStore { .. } => "RegStore",
            Op::LoginStart { .. } => "LoginStart",
            Op::LoginRespond { .. } => "LoginRespond",
            Op::LoginFinish { .. } => "LoginFinish",
            Op::ServerFinish { .. } => "ServerFinish",
            Op::Reload { .. } => "Reload",
            Op::RotateHsmKey { .. } => "RotateHsmKey",
        }
    }
    pub fn outs(&self) -> Vec<Id> {
        match self {
            Op::NewSetup { out, .. }
            | Op::NewSetupWithKey { out, .. }
            | Op::SpliceSetup { out, .. }
            | Op::TwinSetup { out, .. }
            | Op::RegRespond { out, .. }
            | Op::RegFinish { out, .. }
            | Op::RegStore { out, .. }
            | Op::LoginFinish { out, .. } => vec![*out],
            Op::RegStart { st, msg, .. }
            | Op::LoginStart { st, msg, .. }
            | Op::LoginRespond { st, msg, .. } => vec![*st, *msg],
            Op::ServerFinish { .. } | Op::Reload { .. } | Op::RotateHsmKey { .. } => vec![],
        }
    }
    fn refs(&self) -> Vec<&Ref> {
        match self {
            Op::RegRespond { setup, req, .. } => vec![setup, req],
            Op::RegFinish { st, resp, .. } => vec![st, resp],
            Op::RegStore { upload, .. } => vec![upload],
            Op::LoginRespond { setup, record, req, .. } => {
                let mut v = vec![setup, req];
                if let Some(r) = record {
                    v.push(r);
                }
                v
            }
            Op::LoginFinish { st, resp, .. } => vec![st, resp],
            Op::ServerFinish { st, fin } => vec![st, fin],
            _ => vec![],
        }
    }
    pub fn ins(&self) -> Vec<Id> {
        let mut v: Vec<Id> = self
            .refs()
            .into_iter()
            .filter_map(|r| match r {
                Ref::Item { id, .. } => Some(*id),
                _ => None,
            })
            .collect();
        for r in self.refs() {
            if let Ref::Splice { parts, .. } = r {
                v.extend(parts.iter().map(|p| p.id));
            }
        }
        match self {
            Op::SpliceSetup { seed_from, key_from, .. } => {
                v.push(*seed_from);
                v.push(*key_from)
            }
            Op::Reload { id, .. } => v.push(*id),
            Op::NewSetupWithKey { sk_from, .. } => v.push(*sk_from),
            Op::RotateHsmKey { to } => v.push(*to),
            Op::TwinSetup { from, .. } => v.push(*from),
            Op::RegFinish { ids, .. } | Op::LoginRespond { ids, .. } | Op::LoginFinish { ids, .. } => {
                for s in [&ids.client, &ids.server] {
                    if let IdSpec::ClientPkOf(i) | IdSpec::ServerPkOf(i) = s {
                        v.push(*i)
                    }
                }
            }
            _ => {}
        }
        v
    }
}

/// A seam failure planned for one op: the n-th call (1-based, counted within
/// that op) of the key-stretching function / the external key fails.
#[derive(Clone, Debug, Serialize, Deserialize, PartialEq, Eq)]
pub enum Fault {
    KsfFailAt { op: usize, call: usize },
    HsmFailAt { op: usize, call: usize },
}

#[derive(Clone, Debug, Default, Serialize, Deserialize, PartialEq, Eq)]
pub struct Knobs {
    /// the external key serializes to an opaque handle, not the raw scalar
    #[serde(default)]
    pub hsm_handle: bool,
    /// the generator's try_fill_bytes reports an error (fill_bytes still works)
    #[serde(default)]
    pub rng_try_fill_fails: bool,
    /// which error an injected external-key failure carries (seams::hsm_err_name)
    #[serde(default)]
    pub hsm_err_flavour: u8,
}

#[derive(Clone, Debug, Serialize, Deserialize)]
pub struct World {
    pub suite: String,
    pub seed: u64,
    pub index: u64,
    pub note: String,
    pub ops: Vec<Op>,
    #[serde(default)]
    pub faults: Vec<Fault>,
    #[serde(default)]
    pub knobs: Knobs,
}

// ------------------------------------------------------------------ Model A metadata

#[derive(Clone, Debug, PartialEq, Eq)]
pub struct RecMeta {
    pub pw: (Vec<u8>, Vec<u8>),
    pub ksf: KsfArg,
    pub ids: Ids,
    pub seed: Vec<u8>,
    pub cred: Vec<u8>,
    pub server_pk_seen: Vec<u8>,
    /// the OPRF reply the client consumed was for its own request
    pub genuine: bool,
    pub export_key: Vec<u8>,
    pub client_pk: Vec<u8>,
    pub reg_op: usize,
}

#[derive(Clone, Debug)]
pub enum RecordKind {
    None,
    Known(Box<RecMeta>),
    Unknown,
}

#[derive(Clone, Debug)]
pub struct SSess {
    pub op: usize,
    pub seed: Vec<u8>,
    pub pk: Vec<u8>,
    pub record: RecordKind,
    pub cred: Vec<u8>,
    pub ctx: Vec<u8>,
    pub ids: Ids,
    pub req_canon: Vec<u8>,
    pub resp_canon: Vec<u8>,
}

#[derive(Clone, Debug)]
pub enum Meta {
    Setup { seed: Vec<u8>, pk: Vec<u8> },
    RegReq { pw_start: Vec<u8> },
    RegResp { seed: Vec<u8>, cred: Vec<u8>, req_canon: Vec<u8>, pk: Vec<u8> },
    Record(Box<RecMeta>),
    CredReq { pw_start: Vec<u8> },
    CredResp { ssess: usize },
    CredFin { ssess: usize, key: Vec<u8>, cl_state: Vec<u8> },
    ClientReg { pw_start: Vec<u8>, req_canon: Vec<u8> },
    ClientLogin { pw_start: Vec<u8>, req_canon: Vec<u8> },
    ServerLogin { ssess: usize },
}

/// index key: PwFile and RegUpload share bytes and meaning; so do Setup/SetupHsm
fn key_kind(k: Kind) -> Kind {
    match k {
        Kind::PwFile => Kind::RegUpload,
        Kind::SetupHsm => Kind::Setup,
        k => k,
    }
}

/// An Argon2 instance configured for an output length other than Nh: the
/// library's KSF adapter hands it an Nh-byte buffer; whether that is refused
/// or not is the argon2 crate's business, so the model predicts nothing.
pub fn ksf_odd_output(a: &KsfArg, nh: usize) -> bool {
    matches!(a, KsfArg::Argon2Out { out } if *out as usize != nh)
}

pub fn ksf_effective(a: &KsfArg, fam: KsfFamily) -> KsfArg {
    match (a, fam) {
        (KsfArg::Absent, KsfFamily::Sim) => KsfArg::Sim(0),
        (KsfArg::Absent, KsfFamily::Identity) => KsfArg::Identity,
        (KsfArg::Absent, KsfFamily::Argon2) | (KsfArg::Argon2Default, _) => KsfArg::Argon2Alg {
            alg: 2,
            v10: false,
            m: argon2::Params::DEFAULT_M_COST,
            t: argon2::Params::DEFAULT_T_COST,
            p: argon2::Params::DEFAULT_P_COST,
        },
        (KsfArg::Argon2 { m, t, p }, _) => KsfArg::Argon2Alg { alg: 2, v10: false, m: *m, t: *t, p: *p },
        // an output length equal to the buffer's is the same function as "unset"
        (KsfArg::Argon2Out { .. }, _) => KsfArg::Argon2Alg { alg: 2, v10: false, m: 8, t: 1, p: 1 },
        (x, _) => x.clone(),
    }
}

#[derive(Clone, Debug, PartialEq, Eq)]
pub enum Predict {
    /// must succeed
    Accept,
    /// must fail; `invalid_login`: the error must be exactly InvalidLoginError
    /// whenever the failure happens in the operation proper (not at decode)
    Reject { invalid_login: bool, why: &'static str },
    /// the model says nothing (an input is outside what it tracks)
    Any,
}

#[derive(Clone, Debug, Serialize)]
pub struct Violation {
    pub clause: &'static str,
    pub op: usize,
    pub detail: String,
}

#[derive(Clone, Debug, Serialize)]
pub struct Event {
    pub op: usize,
    pub name: &'static str,
    /// Ok(outputs as (name, native bytes)) or the failure
    pub res: Result<Vec<(&'static str, Hex)>, Fail>,
    pub predict: String,
    pub draws: Vec<Hex>,
    pub skipped: bool,
    /// calls the key-stretching seam saw during this op: (tag, input)
    #[serde(default)]
    pub ksf_calls: Vec<(u32, Hex)>,
    /// calls the external-key seam saw during this op
    #[serde(default)]
    pub hsm_calls: Vec<String>,
    /// an injected seam failure fired during this op
    #[serde(default)]
    pub fault_fired: bool,
}

#[derive(Clone, Debug, Default, Serialize)]
pub struct Stats {
    pub ops: BTreeMap<&'static str, u64>,
    pub outcomes: BTreeMap<String, u64>,
    pub faults: BTreeMap<&'static str, u64>,
    pub probes: BTreeMap<&'static str, u64>,
    pub panics: Vec<String>,
    pub alias_skipped: u64,
    pub client_accepts: u64,
    pub server_accepts: u64,
}

impl Stats {
    pub fn bump(m: &mut BTreeMap<&'static str, u64>, k: &'static str) {
        *m.entry(k).or_insert(0) += 1;
    }
    pub fn merge(&mut self, o: &Stats) {
        for (k, v) in &o.ops {
            *self.ops.entry(k).or_insert(0) += v;
        }
        for (k, v) in &o.outcomes {
            *self.outcomes.entry(k.clone()).or_insert(0) += v;
        }
        for (k, v) in &o.faults {
            *self.faults.entry(k).or_insert(0) += v;
        }
        for (k, v) in &o.probes {
            *self.probes.entry(k).or_insert(0) += v;
        }
        for p in &o.panics {
            if self.panics.len() < 20 && !self.panics.contains(p) {
                self.panics.push(p.clone());
            }
        }
        self.alias_skipped += o.alias_skipped;
        self.client_accepts += o.client_accepts;
        self.server_accepts += o.server_accepts;
    }
}

pub struct Slot {
    pub item: Item,
    pub native: Vec<u8>,
}

#[derive(Clone, Debug)]
pub struct ClientDone {
    pub op: usize,
    pub ssess: usize,
    pub key: Vec<u8>,
    pub export_key: Vec<u8>,
    pub server_pk: Vec<u8>,
}

pub struct RunResult {
    pub events: Vec<Event>,
    pub violations: Vec<Violation>,
    pub stats: Stats,
    pub ssess: Vec<SSess>,
    pub client_done: Vec<ClientDone>,
    pub server_done: Vec<(usize, usize, Vec<u8>)>,
    /// every byte string that entered the network or a store, with its kind
    pub wire: Vec<(Kind, Vec<u8>)>,
    /// secrets seen by the harness (export keys, session keys, passwords)
    pub secrets: Vec<(&'static str, Vec<u8>)>,
}

pub struct Exec<'a> {
    pub s: &'a dyn SuiteOps,
    pub w: &'a World,
    pub slots: BTreeMap<Id, Slot>,
    shared: BTreeMap<String, SimRng>,
    index: BTreeMap<(Kind, Vec<u8>), Meta>,
    pub ssess: Vec<SSess>,
    events: Vec<Event>,
    viol: Vec<Violation>,
    stats: Stats,
    client_done: Vec<ClientDone>,
    server_done: Vec<(usize, usize, Vec<u8>)>,
    wire: Vec<(Kind, Vec<u8>)>,
    secrets: Vec<(&'static str, Vec<u8>)>,
    /// after a key rotation in the key service: the public key every externally held key now answers with
    rotated_pk: Option<Vec<u8>>,
}

struct Resolved {
    item: Item,
    /// canonical native bytes if the item decodes (None: not a valid encoding)
    canon: Option<Vec<u8>>,
    /// raw bytes as delivered, when delivered as native bytes
    raw: Option<Vec<u8>>,
}

impl<'a> Exec<'a> {
    pub fn new(s: &'a dyn SuiteOps, w: &'a World) -> Self {
        Exec {
            s,
            w,
            slots: BTreeMap::new(),
            shared: BTreeMap::new(),
            index: BTreeMap::new(),
            ssess: Vec::new(),
            events: Vec::new(),
            viol: Vec::new(),
            stats: Stats::default(),
            client_done: Vec::new(),
            server_done: Vec::new(),
            wire: Vec::new(),
            secrets: Vec::new(),
            rotated_pk: None,
        }
    }

    fn tape(&mut self, t: &Tape) -> SimRng {
        let mut r = self.tape_inner(t);
        r.try_fill_fails = self.w.knobs.rng_try_fill_fails;
        r
    }
    fn tape_inner(&mut self, t: &Tape) -> SimRng {
        match t {
            Tape::Own(l) => SimRng::new(self.w.seed, &format!("tape/{}/{}", self.w.index, l)),
            Tape::Shared(n) => self.shared.remove(n).unwrap_or_else(|| {
                SimRng::new(self.w.seed, &format!("tape/{}/shared/{}", self.w.index, n))
            }),
            Tape::Scripted(l, pre) => SimRng::scripted(
                self.w.seed,
                &format!("tape/{}/{}", self.w.index, l),
                pre.0.clone(),
            ),
        }
    }
    fn tape_back(&mut self, t: &Tape, mut r: SimRng) -> Vec<Hex> {
        let d: Vec<Hex> = std::mem::take(&mut r.draws).into_iter().map(Hex).collect();
        if let Tape::Shared(n) = t {
            self.shared.insert(n.clone(), r);
        }
        d
    }

    fn meta(&self, kind: Kind, canon: &Option<Vec<u8>>) -> Option<&Meta> {
        canon
            .as_ref()
            .and_then(|c| self.index.get(&(key_kind(kind), c.clone())))
    }

    /// Resolve a reference to something deliverable. `None` = dangling
    /// (producer was deleted by the shrinker or failed).
    fn resolve(&mut self, r: &Ref, want: Kind) -> Option<Resolved> {
        match r {
            Ref::Item { id, via } => {
                let slot = self.slots.get(id)?;
                if key_kind(slot.item.kind) != key_kind(want) {
                    Stats::bump(&mut self.stats.faults, "cross_kind_delivery");
                }
                let canon = if key_kind(slot.item.kind) == key_kind(want) {
                    Some(slot.native.clone())
                } else {
                    None
                };
                match via {
                    Codec::Mem => Some(Resolved {
                        item: slot.item.clone(),
                        canon,
                        raw: None,
                    }),
                    c => {
                        Stats::bump(
                            &mut self.stats.faults,
                            match c {
                                Codec::Native => "via_native_bytes",
                                Codec::Bincode => "via_bincode",
                                _ => "via_json",
                            },
                        );
                        let b = match self.s.encode(&slot.item, *c) {
                            Ok(b) => b,
                            Err(f) => {
                                self.note_panic(&f);
                                return None;
                            }
                        };
                        let kind = slot.item.kind;
                        self.wire.push((kind, b.clone()));
                        Some(Resolved {
                            item: Item::bytes(kind, *c, b.clone()),
                            canon,
                            raw: if *c == Codec::Native { Some(b) } else { None },
                        })
                    }
                }
            }
            Ref::Splice { kind, parts } => {
                let mut b = vec![];
                for p in parts {
                    let n = &self.slots.get(&p.id)?.native;
                    let to = p.to.min(n.len());
                    b.extend_from_slice(n.get(p.from.min(to)..to)?);
                }
                Stats::bump(&mut self.stats.faults, "spliced_message_delivery");
                let lit = Ref::Lit { kind: *kind, codec: Codec::Native, bytes: Hex(b) };
                self.resolve(&lit, want)
            }
            Ref::Lit { kind, codec, bytes } => {
                Stats::bump(&mut self.stats.faults, "literal_bytes_delivery");
                // this decode is the harness identifying the literal, not the party using it:
                // the external-key seam neither counts nor fails it
                crate::seams::hsm_pause(true);
                let canon = match self.s.decode(*kind, *codec, &bytes.0) {
                    Ok(it) => self.s.encode(&it, Codec::Native).ok(),
                    Err(f) => {
                        self.note_panic(&f);
                        None
                    }
                };
                // Literal bytes are identified by what was actually sent: if they decode but do
                // not re-encode to themselves (an alias encoding), they are NOT the genuine
                // message — the statements of C03/C04 say that any altered byte is rejected
                let canon = match (canon, codec) {
                    (Some(c), Codec::Native) if c != bytes.0 => {
                        self.stats.alias_skipped += 1;
                        Stats::bump(&mut self.stats.probes, "alias_encoding_delivered");
                        Some(bytes.0.clone())
                    }
                    // the same through bincode / JSON: bytes that load but are stored back as
                    // other bytes are not the message they resemble
                    (Some(c), cd @ (Codec::Bincode | Codec::Json)) => {
                        let again = self.s.decode(*kind, *cd, &bytes.0).ok().and_then(|it| self.s.encode(&it, *cd).ok());
                        if again.as_deref() == Some(bytes.0.as_slice()) {
                            Some(c)
                        } else {
                            self.stats.alias_skipped += 1;
                            Stats::bump(&mut self.stats.probes, "alias_encoding_delivered");
                            let mut marked = b"alias-of:".to_vec();
                            marked.extend_from_slice(&bytes.0);
                            Some(marked)
                        }
                    }
                    (c, _) => c,
                };
                crate::seams::hsm_pause(false);
                self.wire.push((*kind, bytes.0.clone()));
                Some(Resolved {
                    item: Item::bytes(*kind, *codec, bytes.0.clone()),
                    canon: if key_kind(*kind) == key_kind(want) { canon } else { None },
                    raw: if *codec == Codec::Native { Some(bytes.0.clone()) } else { None },
                })
            }
        }
    }

    fn ids(&mut self, w: &WIds) -> Option<Ids> {
        let lens = self.s.lens();
        let mut one = |s: &IdSpec| -> Option<Option<Hex>> {
            Some(match s {
                IdSpec::Absent => None,
                IdSpec::Bytes(h) => Some(h.clone()),
                IdSpec::ClientPkOf(id) => {
                    Stats::bump(&mut self.stats.probes, "explicit_default_identity");
                    Some(Hex(self.slots.get(id)?.native.get(..lens.npk)?.to_vec()))
                }
                IdSpec::ServerPkOf(id) => {
                    Stats::bump(&mut self.stats.probes, "explicit_default_identity");
                    let it = self.slots.get(id)?.item.clone();
                    Some(Hex(self.s.setup_public_key(&it).ok()?))
                }
            })
        };
        Some(Ids { client: one(&w.client)?, server: one(&w.server)? })
    }

    fn note_panic(&mut self, f: &Fail) {
        if let ErrKind::Panic(m) = &f.kind {
            if self.stats.panics.len() < 20 {
                self.stats.panics.push(m.clone());
            }
            self.viol.push(Violation {
                clause: "panic",
                op: self.events.len(),
                detail: m.clone(),
            });
        }
    }

    /// native bytes of a freshly produced item; a failure here is a library
    /// panic inside serialize() and is recorded as such
    fn enc_native(&mut self, item: &Item) -> Vec<u8> {
        match self.s.encode(item, Codec::Native) {
            Ok(b) => b,
            Err(f) => {
                self.note_panic(&f);
                vec![]
            }
        }
    }

    fn put(&mut self, id: Id, item: Item, meta: Option<Meta>) -> Vec<u8> {
        let native = self.enc_native(&item);
        if native.is_empty() {
            // the library could not even serialize what it just produced (a panic,
            // already recorded): nothing is stored, consumers will be skipped
            return native;
        }
        if let Some(m) = meta {
            self.index.insert((key_kind(item.kind), native.clone()), m);
        }
        match item.kind {
            Kind::RegReq
            | Kind::RegResp
            | Kind::RegUpload
            | Kind::CredReq
            | Kind::CredResp
            | Kind::CredFin
            | Kind::PwFile => self.wire.push((item.kind, native.clone())),
            _ => {}
        }
        self.slots.insert(
            id,
            Slot {
                item,
                native: native.clone(),
            },
        );
        native
    }

    fn violate(&mut self, clause: &'static str, op: usize, detail: String) {
        self.viol.push(Violation { clause, op, detail });
    }

    fn check_predict<T>(
        &mut self,
        op: usize,
        what: &'static str,
        p: &Predict,
        res: &Result<T, Fail>,
    ) {
        let oc = match res {
            Ok(_) => "ok".to_string(),
            Err(f) => match (&f.kind, &f.stage) {
                (ErrKind::Panic(_), _) => "panic".into(),
                (k, Stage::Decode(a)) => format!("decode_err[{a}]:{}", errname(k)),
                (k, Stage::Op) => format!("err:{}", errname(k)),
            },
        };
        *self
            .stats
            .outcomes
            .entry(format!("{what}/{}/{oc}", pname(p)))
            .or_insert(0) += 1;
        if let Err(f) = res {
            self.note_panic(f);
        }
        match (p, res) {
            (Predict::Accept, Err(f)) => self.violate(
                match what {
                    "LoginFinish" => "client_reject_unexpected",
                    "ServerFinish" => "server_reject_unexpected",
                    _ => "step_failed",
                },
                op,
                format!("{what}: model requires success, got {}", f.short()),
            ),
            (Predict::Reject { why, .. }, Ok(_)) => self.violate(
                match what {
                    "LoginFinish" => "client_accept_unexpected",
                    "ServerFinish" => "server_accept_unexpected",
                    _ => "step_ok_unexpected",
                },
                op,
                format!("{what}: model requires rejection ({why}), got Ok"),
            ),
            (Predict::Reject { invalid_login: true, why }, Err(f)) => {
                if f.stage == Stage::Op && f.kind != ErrKind::InvalidLogin && !f.is_panic() {
                    self.violate(
                        match what {
                            "LoginFinish" => "client_errkind",
                            _ => "server_errkind",
                        },
                        op,
                        format!("{what}: rejection ({why}) must be InvalidLoginError, got {}", f.short()),
                    )
                }
            }
            _ => {}
        }
    }

    pub fn run(mut self) -> RunResult {
        use crate::seams::*;
        let ops = self.w.ops.clone();
        hsm_set_handle_mode(self.w.knobs.hsm_handle);
        hsm_set_err_flavour(self.w.knobs.hsm_err_flavour);
        hsm_rotate_to(None);
        for (i, op) in ops.iter().enumerate() {
            Stats::bump(&mut self.stats.ops, op.name());
            let kf = self.w.faults.iter().find_map(|f| match f {
                Fault::KsfFailAt { op, call } if *op == i => Some(*call),
                _ => None,
            });
            let hf = self.w.faults.iter().find_map(|f| match f {
                Fault::HsmFailAt { op, call } if *op == i => Some(*call),
                _ => None,
            });
            ksf_reset(kf);
            hsm_reset(hf);
            let (k0, h0) = (ksf_faults_fired(), hsm_faults_fired());
            let nviol = self.viol.len();
            self.step(i, op);
            let klog = ksf_take_log();
            let hlog = hsm_take_log();
            let fired_k = ksf_faults_fired() > k0;
            let fired_h = hsm_faults_fired() > h0;
            ksf_reset(None);
            hsm_reset(None);
            if let Some(e) = self.events.last_mut() {
                if e.op == i {
                    e.ksf_calls = klog.iter().map(|c| (c.tag, Hex(c.input.clone()))).collect();
                    e.hsm_calls = hlog.iter().map(|c| format!("{c:?}")).collect();
                    e.fault_fired = fired_k || fired_h;
                }
            }
            if fired_k || fired_h {
                Stats::bump(&mut self.stats.faults, if fired_k { "ksf_call_failed" } else { "hsm_call_failed" });
                // the model knew nothing of the fault: drop its verdicts for this op
                let keep: Vec<Violation> = self.viol.drain(nviol..).filter(|v| v.clause == "panic").collect();
                self.viol.extend(keep);
                let flav = self.w.knobs.hsm_err_flavour;
                let want = if fired_k { "KsfError".to_string() } else { hsm_err_name(flav, hf.unwrap_or(0)) };
                let res = self.events.last().filter(|e| e.op == i).map(|e| e.res.clone());
                match res {
                    Some(Ok(_)) => self.violate("seam_error_swallowed", i, format!("{}: an injected {} failure did not surface: the operation returned Ok", op.name(), if fired_k { "KSF" } else { "external-key" })),
                    Some(Err(f)) => {
                        let ok = match &f.kind {
                            ErrKind::Library(n) => n == &want,
                            // the key's own serde implementation names the error in its message
                            ErrKind::Serde(m) => fired_h && m.contains(&want),
                            _ => false,
                        };
                        if !ok && !f.is_panic() {
                            self.violate("seam_error_wrong_kind", i, format!("{}: injected failure must surface as LibraryError({want}), got {}", op.name(), f.short()));
                        }
                    }
                    None => {}
                }
            }
        }
        hsm_set_handle_mode(false);
        hsm_set_err_flavour(0);
        hsm_rotate_to(None);
        self.finish()
    }

    fn skip(&mut self, i: usize, op: &Op) {
        Stats::bump(&mut self.stats.probes, "op_skipped_dangling");
        self.events.push(Event {
            op: i,
            name: op.name(),
            res: Ok(vec![]),
            predict: "-".into(),
            draws: vec![],
            skipped: true,
            ksf_calls: vec![],
            hsm_calls: vec![],
            fault_fired: false,
        });
    }

    fn step(&mut self, i: usize, op: &Op) {
        let lens = self.s.lens();
        match op {
            Op::NewSetup { out, tape, hsm } => {
                let mut rng = self.tape(tape);
                let res = if *hsm {
                    // the externally-held twin of the setup this tape yields: same seed,
                    // same keys, the static key behind the SecretKey seam. Built from the
                    // direct setup's stored bytes (no assumption about draw order).
                    match self.s.server_setup_new(&mut rng) {
                        Ok(direct) => {
                            let mut nat = self.enc_native(&direct);
                            if nat.len() < lens.nh + 2 * lens.nsk {
                                let _ = self.tape_back(tape, rng);
                                return self.skip(i, op);
                            }
                            if self.w.knobs.hsm_handle {
                                for (k, x) in nat[lens.nh..lens.nh + lens.nsk].iter_mut().enumerate() {
                                    *x ^= 0x5a ^ (k as u8).wrapping_mul(29);
                                }
                            }
                            self.s.decode(Kind::SetupHsm, Codec::Native, &nat)
                        }
                        Err(f) => Err(f),
                    }
                } else {
                    self.s.server_setup_new(&mut rng)
                };
                let draws = self.tape_back(tape, rng);
                self.check_predict(i, "NewSetup", &Predict::Accept, &res);
                let ev = match res {
                    Ok(item) => {
                        let pk = self.s.setup_public_key(&item).unwrap_or_default();
                        let nat = self.enc_native(&item);
                        let seed = nat.get(..lens.nh).unwrap_or_default().to_vec();
                        let n = self.put(*out, item, Some(Meta::Setup { seed, pk: pk.clone() }));
                        Ok(vec![("setup", Hex(n)), ("pk", Hex(pk))])
                    }
                    Err(f) => Err(f),
                };
                self.events.push(Event { op: i, name: op.name(), res: ev, predict: "accept".into(), draws, skipped: false, ksf_calls: vec![], hsm_calls: vec![], fault_fired: false });
            }
            Op::NewSetupWithKey { out, tape, sk_from } => {
                let Some(src) = self.slots.get(sk_from) else { return self.skip(i, op) };
                // the raw scalar of the source setup (direct setups store it in the clear)
                let sk = src.native[lens.nh..lens.nh + lens.nsk].to_vec();
                let src_hsm = src.item.kind == Kind::SetupHsm;
                let mut rng = self.tape(tape);
                let res = if src_hsm && self.w.knobs.hsm_handle {
                    // handle bytes are what SimHsm::deserialize expects in handle mode
                    self.s.server_setup_new_hsm(&mut rng, &sk)
                } else {
                    // translate raw scalar to the external key's serialized form
                    let mut h = sk.clone();
                    if self.w.knobs.hsm_handle {
                        for (i, x) in h.iter_mut().enumerate() {
                            *x ^= 0x5a ^ (i as u8).wrapping_mul(29);
                        }
                    }
                    self.s.server_setup_new_hsm(&mut rng, &h)
                };
                let draws = self.tape_back(tape, rng);
                self.check_predict(i, "NewSetupWithKey", &Predict::Accept, &res);
                let ev = match res {
                    Ok(item) => {
                        let pk = self.s.setup_public_key(&item).unwrap_or_default();
                        let nat = self.enc_native(&item);
                        let seed = nat.get(..lens.nh).unwrap_or_default().to_vec();
                        let n = self.put(*out, item, Some(Meta::Setup { seed, pk: pk.clone() }));
                        Ok(vec![("setup", Hex(n)), ("pk", Hex(pk))])
                    }
                    Err(f) => Err(f),
                };
                self.events.push(Event { op: i, name: op.name(), res: ev, predict: "accept".into(), draws, skipped: false, ksf_calls: vec![], hsm_calls: vec![], fault_fired: false });
            }
            Op::TwinSetup { out, from, hsm } => {
                let Some(src) = self.slots.get(from) else { return self.skip(i, op) };
                let mut nat = src.native.clone();
                let src_handle = src.item.kind == Kind::SetupHsm && self.w.knobs.hsm_handle;
                let dst_handle = *hsm && self.w.knobs.hsm_handle;
                if src_handle != dst_handle && nat.len() >= lens.nh + lens.nsk {
                    for (k, x) in nat[lens.nh..lens.nh + lens.nsk].iter_mut().enumerate() {
                        *x ^= 0x5a ^ (k as u8).wrapping_mul(29);
                    }
                }
                let res = self.s.decode(if *hsm { Kind::SetupHsm } else { Kind::Setup }, Codec::Native, &nat);
                self.check_predict(i, "TwinSetup", &Predict::Accept, &res);
                let ev = match res {
                    Ok(item) => {
                        let pk = self.s.setup_public_key(&item).unwrap_or_default();
                        let seed = nat[..lens.nh].to_vec();
                        let n = self.put(*out, item, Some(Meta::Setup { seed, pk: pk.clone() }));
                        Ok(vec![("setup", Hex(n)), ("pk", Hex(pk))])
                    }
                    Err(f) => Err(f),
                };
                self.events.push(Event { op: i, name: op.name(), res: ev, predict: "accept".into(), draws: vec![], skipped: false, ksf_calls: vec![], hsm_calls: vec![], fault_fired: false });
            }
            Op::SpliceSetup { out, seed_from, key_from } => {
                let (a, b) = match (self.slots.get(seed_from), self.slots.get(key_from)) {
                    (Some(a), Some(b)) => (a.native.clone(), b.native.clone()),
                    _ => return self.skip(i, op),
                };
                // the spliced setup holds its (raw) key directly, whatever the sources were
                let kind = Kind::Setup;
                let mut sk = b[lens.nh..lens.nh + lens.nsk].to_vec();
                if self.slots[key_from].item.kind == Kind::SetupHsm && self.w.knobs.hsm_handle {
                    for (i, x) in sk.iter_mut().enumerate() {
                        *x ^= 0x5a ^ (i as u8).wrapping_mul(29);
                    }
                }
                let mut bytes = a[..lens.nh].to_vec();
                bytes.extend_from_slice(&sk);
                bytes.extend_from_slice(&a[lens.nh + lens.nsk..]);
                Stats::bump(&mut self.stats.faults, "static_key_swapped_under_same_seed");
                let res = self.s.decode(kind, Codec::Native, &bytes);
                self.check_predict(i, "SpliceSetup", &Predict::Accept, &res);
                let ev = match res {
                    Ok(item) => {
                        let pk = self.s.setup_public_key(&item).unwrap_or_default();
                        let seed = bytes[..lens.nh].to_vec();
                        let n = self.put(*out, item, Some(Meta::Setup { seed, pk: pk.clone() }));
                        Ok(vec![("setup", Hex(n)), ("pk", Hex(pk))])
                    }
                    Err(f) => Err(f),
                };
                self.events.push(Event { op: i, name: op.name(), res: ev, predict: "accept".into(), draws: vec![], skipped: false, ksf_calls: vec![], hsm_calls: vec![], fault_fired: false });
            }
            Op::RegStart { st, msg, tape, pw } => {
                let mut rng = self.tape(tape);
                let res = self.s.client_reg_start(&mut rng, &pw.0);
                let draws = self.tape_back(tape, rng);
                let p = if pw.0.len() <= 65535 { Predict::Accept } else { Predict::Any };
                self.check_predict(i, "RegStart", &p, &res);
                self.secrets.push(("password", pw.0.clone()));
                let ev = match res {
                    Ok((state, m)) => {
                        let mb = self.put(*msg, m, Some(Meta::RegReq { pw_start: pw.0.clone() }));
                        let sb = self.put(
                            *st,
                            state,
                            Some(Meta::ClientReg { pw_start: pw.0.clone(), req_canon: mb.clone() }),
                        );
                        Ok(vec![("state", Hex(sb)), ("msg", Hex(mb))])
                    }
                    Err(f) => Err(f),
                };
                self.events.push(Event { op: i, name: op.name(), res: ev, predict: pname(&p).into(), draws, skipped: false, ksf_calls: vec![], hsm_calls: vec![], fault_fired: false });
            }
            Op::RegRespond { out, setup, req, cred } => {
                let (Some(su), Some(rq)) = (self.resolve(setup, Kind::Setup), self.resolve(req, Kind::RegReq)) else {
                    return self.skip(i, op);
                };
                let sm = self.meta(Kind::Setup, &su.canon).cloned();
                let rm = self.meta(Kind::RegReq, &rq.canon).cloned();
                let p = match (&sm, &rm) {
                    (Some(Meta::Setup { .. }), Some(Meta::RegReq { .. })) => Predict::Accept,
                    _ => Predict::Any,
                };
                let res = self.s.server_reg_start(&su.item, &rq.item, &cred.0);
                self.check_predict(i, "RegRespond", &p, &res);
                let ev = match res {
                    Ok(m) => {
                        let meta = match (&sm, &rq.canon) {
                            (Some(Meta::Setup { seed, pk }), Some(rc)) => Some(Meta::RegResp {
                                seed: seed.clone(),
                                cred: cred.0.clone(),
                                req_canon: rc.clone(),
                                pk: pk.clone(),
                            }),
                            _ => None,
                        };
                        let b = self.put(*out, m, meta);
                        Ok(vec![("msg", Hex(b))])
                    }
                    Err(f) => Err(f),
                };
                self.events.push(Event { op: i, name: op.name(), res: ev, predict: pname(&p).into(), draws: vec![], skipped: false, ksf_calls: vec![], hsm_calls: vec![], fault_fired: false });
            }
            Op::RegFinish { out, tape, st, pw, resp, ids, ksf } => {
                let Some(ids) = self.ids(ids) else { return self.skip(i, op) };
                let ids = &ids;
                let (Some(stt), Some(rs)) = (self.resolve(st, Kind::ClientReg), self.resolve(resp, Kind::RegResp)) else {
                    return self.skip(i, op);
                };
                let stm = self.meta(Kind::ClientReg, &stt.canon).cloned();
                let rsm = self.meta(Kind::RegResp, &rs.canon).cloned();
                let sizes_ok = pw.0.len() <= 65535
                    && ids.client.as_ref().map_or(true, |x| x.0.len() <= 65535)
                    && ids.server.as_ref().map_or(true, |x| x.0.len() <= 65535);
                let p = match (&stm, &rsm) {
                    (Some(Meta::ClientReg { .. }), Some(Meta::RegResp { .. })) if sizes_ok && !ksf_odd_output(ksf, self.s.lens().nh) => Predict::Accept,
                    _ if !sizes_ok => Predict::Reject { invalid_login: false, why: "a parameter is longer than 65535 bytes" },
                    _ => Predict::Any,
                };
                let mut rng = self.tape(tape);
                let res = self.s.client_reg_finish(&mut rng, &stt.item, &pw.0, &rs.item, ids, ksf);
                let draws = self.tape_back(tape, rng);
                self.check_predict(i, "RegFinish", &p, &res);
                self.secrets.push(("password", pw.0.clone()));
                let ev = match res {
                    Ok(o) => {
                        self.secrets.push(("export_key", o.export_key.clone()));
                        let upb = self.enc_native(&o.upload);
                        let meta = match (&stm, &rsm) {
                            (
                                Some(Meta::ClientReg { pw_start, req_canon }),
                                Some(Meta::RegResp { seed, cred, req_canon: rc2, pk }),
                            ) => {
                                if &o.server_pk != pk {
                                    self.violate(
                                        "reg_server_pk",
                                        i,
                                        format!(
                                            "registration reported server_s_pk {} but the setup's public key is {}",
                                            hex::encode(&o.server_pk),
                                            hex::encode(pk)
                                        ),
                                    );
                                }
                                Some(Meta::Record(Box::new(RecMeta {
                                    pw: (pw_start.clone(), pw.0.clone()),
                                    ksf: ksf_effective(ksf, self.s.ksf_family()),
                                    ids: ids.clone(),
                                    seed: seed.clone(),
                                    cred: cred.clone(),
                                    server_pk_seen: pk.clone(),
                                    genuine: req_canon == rc2,
                                    export_key: o.export_key.clone(),
                                    client_pk: upb.get(..lens.npk).unwrap_or_default().to_vec(),
                                    reg_op: i,
                                })))
                            }
                            _ => None,
                        };
                        let b = self.put(*out, o.upload, meta);
                        Ok(vec![("upload", Hex(b)), ("export_key", Hex(o.export_key)), ("server_pk", Hex(o.server_pk))])
                    }
                    Err(f) => Err(f),
                };
                self.events.push(Event { op: i, name: op.name(), res: ev, predict: pname(&p).into(), draws, skipped: false, ksf_calls: vec![], hsm_calls: vec![], fault_fired: false });
            }
            Op::RegStore { out, upload } => {
                let Some(up) = self.resolve(upload, Kind::RegUpload) else { return self.skip(i, op) };
                let um = self.meta(Kind::RegUpload, &up.canon).cloned();
                let p = if um.is_some() { Predict::Accept } else { Predict::Any };
                let res = self.s.server_reg_finish(&up.item);
                self.check_predict(i, "RegStore", &p, &res);
                let ev = match res {
                    Ok(rec) => {
                        let b = self.put(*out, rec, um);
                        Ok(vec![("record", Hex(b))])
                    }
                    Err(f) => Err(f),
                };
                self.events.push(Event { op: i, name: op.name(), res: ev, predict: pname(&p).into(), draws: vec![], skipped: false, ksf_calls: vec![], hsm_calls: vec![], fault_fired: false });
            }
            Op::LoginStart { st, msg, tape, pw } => {
                let mut rng = self.tape(tape);
                let res = self.s.client_login_start(&mut rng, &pw.0);
                let draws = self.tape_back(tape, rng);
                let p = if pw.0.len() <= 65535 { Predict::Accept } else { Predict::Any };
                self.check_predict(i, "LoginStart", &p, &res);
                self.secrets.push(("password", pw.0.clone()));
                let ev = match res {
                    Ok((state, m)) => {
                        let mb = self.put(*msg, m, Some(Meta::CredReq { pw_start: pw.0.clone() }));
                        let sb = self.put(
                            *st,
                            state,
                            Some(Meta::ClientLogin { pw_start: pw.0.clone(), req_canon: mb.clone() }),
                        );
                        Ok(vec![("state", Hex(sb)), ("msg", Hex(mb))])
                    }
                    Err(f) => Err(f),
                };
                self.events.push(Event { op: i, name: op.name(), res: ev, predict: pname(&p).into(), draws, skipped: false, ksf_calls: vec![], hsm_calls: vec![], fault_fired: false });
            }
            Op::LoginRespond { st, msg, tape, setup, record, req, cred, ctx, ids } => {
                let Some(ids) = self.ids(ids) else { return self.skip(i, op) };
                let ids = &ids;
                let Some(su) = self.resolve(setup, Kind::Setup) else { return self.skip(i, op) };
                let Some(rq) = self.resolve(req, Kind::CredReq) else { return self.skip(i, op) };
                let rec = match record {
                    None => None,
                    Some(r) => match self.resolve(r, Kind::PwFile) {
                        Some(x) => Some(x),
                        None => return self.skip(i, op),
                    },
                };
                if record.is_none() {
                    Stats::bump(&mut self.stats.probes, "login_without_record");
                }
                let sm = self.meta(Kind::Setup, &su.canon).cloned();
                let rqm = self.meta(Kind::CredReq, &rq.canon).cloned();
                let recm = match &rec {
                    None => RecordKind::None,
                    Some(r) => match self.meta(Kind::PwFile, &r.canon) {
                        Some(Meta::Record(m)) => RecordKind::Known(m.clone()),
                        _ => RecordKind::Unknown,
                    },
                };
                let sizes_ok = ctx.as_ref().map_or(true, |x| x.0.len() <= 65535)
                    && ids.client.as_ref().map_or(true, |x| x.0.len() <= 65535)
                    && ids.server.as_ref().map_or(true, |x| x.0.len() <= 65535);
                let p = match (&sm, &rqm, &recm) {
                    (Some(Meta::Setup { .. }), Some(Meta::CredReq { .. }), RecordKind::None | RecordKind::Known(_)) if sizes_ok => {
                        Predict::Accept
                    }
                    _ => Predict::Any,
                };
                let mut rng = self.tape(tape);
                let res = self.s.server_login_start(
                    &mut rng,
                    &su.item,
                    rec.as_ref().map(|r| &r.item),
                    &rq.item,
                    &cred.0,
                    ctx.as_ref().map(|c| c.0.as_slice()),
                    ids,
                );
                let draws = self.tape_back(tape, rng);
                self.check_predict(i, "LoginRespond", &p, &res);
                let ev = match res {
                    Ok((state, m)) => {
                        let mb = self.enc_native(&m);
                        let (mm, sm2) = match (&sm, &rq.canon) {
                            (Some(Meta::Setup { seed, pk }), Some(rc)) => {
                                let idx = self.ssess.len();
                                // an externally held key answers with whatever key the service holds now
                                let live = match (&self.rotated_pk, su.item.kind) {
                                    (Some(p), Kind::SetupHsm) => p.clone(),
                                    _ => pk.clone(),
                                };
                                self.ssess.push(SSess {
                                    op: i,
                                    seed: seed.clone(),
                                    pk: live,
                                    record: recm.clone(),
                                    cred: cred.0.clone(),
                                    ctx: ctx.as_ref().map(|c| c.0.clone()).unwrap_or_default(),
                                    ids: ids.clone(),
                                    req_canon: rc.clone(),
                                    resp_canon: mb.clone(),
                                });
                                (Some(Meta::CredResp { ssess: idx }), Some(Meta::ServerLogin { ssess: idx }))
                            }
                            _ => (None, None),
                        };
                        let mb = self.put(*msg, m, mm);
                        let sb = self.put(*st, state, sm2);
                        Ok(vec![("state", Hex(sb)), ("msg", Hex(mb))])
                    }
                    Err(f) => Err(f),
                };
                self.events.push(Event { op: i, name: op.name(), res: ev, predict: pname(&p).into(), draws, skipped: false, ksf_calls: vec![], hsm_calls: vec![], fault_fired: false });
            }
            Op::LoginFinish { out, st, pw, resp, ctx, ids, ksf } => {
                let Some(ids) = self.ids(ids) else { return self.skip(i, op) };
                let ids = &ids;
                let (Some(stt), Some(rs)) = (self.resolve(st, Kind::ClientLogin), self.resolve(resp, Kind::CredResp)) else {
                    return self.skip(i, op);
                };
                let stm = self.meta(Kind::ClientLogin, &stt.canon).cloned();
                let ctx_ok = ctx.as_ref().map_or(true, |x| x.0.len() <= 65535);
                let sizes_ok = pw.0.len() <= 65535
                    && ids.client.as_ref().map_or(true, |x| x.0.len() <= 65535)
                    && ids.server.as_ref().map_or(true, |x| x.0.len() <= 65535);
                let (p, which) = match &stm {
                    Some(Meta::ClientLogin { pw_start, req_canon }) if sizes_ok => {
                        let (p, which) = self.predict_client(pw_start, &pw.0, req_canon, &rs, ctx, ids, ksf);
                        match (&p, ctx_ok) {
                            (_, true) => (p, which),
                            // C02: a wrong password (or no password file) is reported as such for
                            // *all* contexts, also one that could never be encoded
                            (Predict::Reject { invalid_login: true, .. }, false) => (p, None),
                            (_, false) => (Predict::Reject { invalid_login: false, why: "a parameter is longer than 65535 bytes" }, None),
                        }
                    }
                    // an unencodable parameter can never be part of an accepted login
                    Some(Meta::ClientLogin { .. }) => (
                        Predict::Reject { invalid_login: false, why: "a parameter is longer than 65535 bytes" },
                        None,
                    ),
                    _ => (Predict::Any, None),
                };
                self.secrets.push(("password", pw.0.clone()));
                let res = self.s.client_login_finish(
                    &stt.item,
                    &pw.0,
                    &rs.item,
                    ctx.as_ref().map(|c| c.0.as_slice()),
                    ids,
                    ksf,
                );
                self.check_predict(i, "LoginFinish", &p, &res);
                let ev = match res {
                    Ok(o) => {
                        self.stats.client_accepts += 1;
                        self.secrets.push(("session_key", o.session_key.clone()));
                        self.secrets.push(("export_key", o.export_key.clone()));
                        let meta = which.map(|idx| {
                            // postconditions of an accepted login
                            let ss = self.ssess[idx].clone();
                            if let RecordKind::Known(r) = &ss.record {
                                if o.export_key != r.export_key {
                                    self.violate("export_key_mismatch", i, format!(
                                        "login export_key {} != registration export_key {}",
                                        hex::encode(&o.export_key), hex::encode(&r.export_key)));
                                }
                                if o.server_pk != r.server_pk_seen {
                                    self.violate("login_server_pk", i, format!(
                                        "login server_s_pk {} != the one seen at registration {}",
                                        hex::encode(&o.server_pk), hex::encode(&r.server_pk_seen)));
                                }
                            }
                            if o.server_pk != ss.pk {
                                self.violate("login_server_pk", i, format!(
                                    "login server_s_pk {} != setup public key {}",
                                    hex::encode(&o.server_pk), hex::encode(&ss.pk)));
                            }
                            self.client_done.push(ClientDone {
                                op: i,
                                ssess: idx,
                                key: o.session_key.clone(),
                                export_key: o.export_key.clone(),
                                server_pk: o.server_pk.clone(),
                            });
                            Meta::CredFin {
                                ssess: idx,
                                key: o.session_key.clone(),
                                cl_state: stt.canon.clone().unwrap_or_default(),
                            }
                        });
                        let b = self.put(*out, o.fin, meta);
                        Ok(vec![
                            ("fin", Hex(b)),
                            ("session_key", Hex(o.session_key)),
                            ("export_key", Hex(o.export_key)),
                            ("server_pk", Hex(o.server_pk)),
                        ])
                    }
                    Err(f) => Err(f),
                };
                self.events.push(Event { op: i, name: op.name(), res: ev, predict: pname(&p).into(), draws: vec![], skipped: false, ksf_calls: vec![], hsm_calls: vec![], fault_fired: false });
            }
            Op::ServerFinish { st, fin } => {
                let (Some(stt), Some(fi)) = (self.resolve(st, Kind::ServerLogin), self.resolve(fin, Kind::CredFin)) else {
                    return self.skip(i, op);
                };
                let stm = self.meta(Kind::ServerLogin, &stt.canon).cloned();
                let fm = self.meta(Kind::CredFin, &fi.canon).cloned();
                let (p, expect_key) = match &stm {
                    Some(Meta::ServerLogin { ssess }) => match &fm {
                        Some(Meta::CredFin { ssess: s2, key, .. }) if s2 == ssess => (Predict::Accept, Some(key.clone())),
                        Some(Meta::CredFin { .. }) => (
                            Predict::Reject { invalid_login: true, why: "finalization belongs to another session" },
                            None,
                        ),
                        _ => (
                            Predict::Reject { invalid_login: true, why: "finalization was not produced by an accepting client run" },
                            None,
                        ),
                    },
                    _ => (Predict::Any, None),
                };
                let res = self.s.server_login_finish(&stt.item, &fi.item);
                self.check_predict(i, "ServerFinish", &p, &res);
                // C03 speaks of *every* byte string of the finalization length: such a string
                // must reach the final step and be answered there, not be turned away by the decoder
                if let (Predict::Reject { invalid_login: true, .. }, Some(raw), Err(f)) = (&p, &fi.raw, &res) {
                    if raw.len() == self.s.lens().nh && matches!(&f.stage, Stage::Decode(a) if a == "fin") && !f.is_panic() {
                        self.violate("server_errkind", i, format!("ServerFinish: a {}-byte finalization ({}) never reached the final step: the decoder refused it with {} instead of the final step answering InvalidLoginError", raw.len(), crate::hexs::abbrev(raw), f.short()));
                    }
                }
                let ev = match res {
                    Ok(k) => {
                        self.stats.server_accepts += 1;
                        self.secrets.push(("session_key", k.clone()));
                        if let Some(ek) = expect_key {
                            if ek != k {
                                self.violate("key_mismatch", i, format!(
                                    "server session key {} != client session key {}",
                                    hex::encode(&k), hex::encode(&ek)));
                            }
                        }
                        if let Some(Meta::ServerLogin { ssess }) = &stm {
                            self.server_done.push((i, *ssess, k.clone()));
                        }
                        Ok(vec![("session_key", Hex(k))])
                    }
                    Err(f) => Err(f),
                };
                self.events.push(Event { op: i, name: op.name(), res: ev, predict: pname(&p).into(), draws: vec![], skipped: false, ksf_calls: vec![], hsm_calls: vec![], fault_fired: false });
            }
            Op::RotateHsmKey { to } => {
                let Some(src) = self.slots.get(to) else { return self.skip(i, op) };
                if src.item.kind != Kind::Setup || src.native.len() < lens.nh + lens.nsk {
                    return self.skip(i, op);
                }
                let sk = src.native[lens.nh..lens.nh + lens.nsk].to_vec();
                let pk = self.s.setup_public_key(&src.item.clone()).unwrap_or_default();
                crate::seams::hsm_rotate_to(Some(sk));
                self.rotated_pk = Some(pk.clone());
                Stats::bump(&mut self.stats.faults, "external_key_rotated");
                self.events.push(Event { op: i, name: op.name(), res: Ok(vec![("live_pk", Hex(pk))]), predict: "-".into(), draws: vec![], skipped: false, ksf_calls: vec![], hsm_calls: vec![], fault_fired: false });
            }
            Op::Reload { id, codec } => {
                let Some(slot) = self.slots.get(id) else { return self.skip(i, op) };
                Stats::bump(
                    &mut self.stats.faults,
                    match codec {
                        Codec::Native => "crash_reload_native",
                        Codec::Bincode => "crash_reload_bincode",
                        Codec::Json => "crash_reload_json",
                        Codec::Mem => "crash_reload_none",
                    },
                );
                if *codec == Codec::Mem {
                    self.events.push(Event { op: i, name: op.name(), res: Ok(vec![]), predict: "-".into(), draws: vec![], skipped: false, ksf_calls: vec![], hsm_calls: vec![], fault_fired: false });
                    return;
                }
                let kind = slot.item.kind;
                let res = self.s.encode(&slot.item, *codec);
                let ev = match res {
                    Ok(b) => {
                        // restart: the party now holds only the stored bytes
                        // and must be able to decode them
                        let dec = self.s.decode(kind, *codec, &b);
                        self.check_predict(i, "Reload", &Predict::Accept, &dec);
                        self.wire.push((kind, b.clone()));
                        match dec {
                            Ok(live) => {
                                let nat = self.s.encode(&live, Codec::Native).unwrap_or_default();
                                let old = self.slots.get(id).unwrap().native.clone();
                                if nat != old {
                                    self.violate("reload_changed_state", i, format!(
                                        "{:?} via {:?}: native encoding after reload {} != before {}",
                                        kind, codec, hex::encode(&nat), hex::encode(&old)));
                                }
                                let s = self.slots.get_mut(id).unwrap();
                                s.item = live;
                                Ok(vec![("stored", Hex(b))])
                            }
                            Err(f) => Err(f),
                        }
                    }
                    Err(f) => {
                        self.note_panic(&f);
                        Err(f)
                    }
                };
                self.events.push(Event { op: i, name: op.name(), res: ev, predict: "accept".into(), draws: vec![], skipped: false, ksf_calls: vec![], hsm_calls: vec![], fault_fired: false });
            }
        }
    }

    /// Model A: must `ClientLogin::finish` accept?
    #[allow(clippy::too_many_arguments)]
    fn predict_client(
        &self,
        pw_start: &[u8],
        pw_finish: &[u8],
        req_canon: &[u8],
        resp: &Resolved,
        ctx: &Option<Hex>,
        ids: &Ids,
        ksf: &KsfArg,
    ) -> (Predict, Option<usize>) {
        let rej = |why: &'static str, il: bool| (Predict::Reject { invalid_login: il, why }, None);
        if ksf_odd_output(ksf, self.s.lens().nh) {
            return (Predict::Any, None);
        }
        let Some(rc) = &resp.canon else {
            return rej("response does not decode", false);
        };
        let idx = match self.index.get(&(Kind::CredResp, rc.clone())) {
            Some(Meta::CredResp { ssess }) => *ssess,
            _ => return rej("response is not the output of any server session", false),
        };
        let ss = &self.ssess[idx];
        if ss.req_canon != req_canon {
            return rej("response was made for another request", false);
        }
        let r = match &ss.record {
            RecordKind::None => return rej("no password file (fake record)", true),
            RecordKind::Unknown => return rej("password file is not a registered one", false),
            RecordKind::Known(r) => r,
        };
        if !r.genuine {
            return rej("record was sealed over an OPRF reply for another request", false);
        }
        if r.pw.0 != pw_start || r.pw.1 != pw_finish {
            return rej("password differs from the registered one", true);
        }
        if r.seed != ss.seed {
            return rej("record registered under another OPRF seed", false);
        }
        if r.cred != ss.cred {
            return rej("credential identifier differs from registration", false);
        }
        if r.ksf != ksf_effective(ksf, self.s.ksf_family()) {
            return rej("key-stretching parameters differ from registration", false);
        }
        if r.server_pk_seen != ss.pk {
            return rej("server static key differs from the one sealed at registration", false);
        }
        let eff = |o: &Option<Hex>, d: &Vec<u8>| o.as_ref().map(|h| h.0.clone()).unwrap_or_else(|| d.clone());
        let reg = (eff(&r.ids.client, &r.client_pk), eff(&r.ids.server, &r.server_pk_seen));
        let srv = (eff(&ss.ids.client, &r.client_pk), eff(&ss.ids.server, &ss.pk));
        let cli = (eff(&ids.client, &r.client_pk), eff(&ids.server, &ss.pk));
        if reg != cli {
            return rej("client identities differ from the ones sealed at registration", false);
        }
        if srv != cli {
            return rej("client and server disagree on identities", false);
        }
        let cctx = ctx.as_ref().map(|c| c.0.clone()).unwrap_or_default();
        if cctx != ss.ctx {
            return rej("context differs", false);
        }
        (Predict::Accept, Some(idx))
    }

    fn finish(mut self) -> RunResult {
        // distinct completed sessions ⇒ distinct session keys; same session ⇒ same key
        let mut by_key: BTreeMap<Vec<u8>, (usize, usize)> = BTreeMap::new();
        let mut all: Vec<(usize, usize, Vec<u8>)> = self
            .client_done
            .iter()
            .map(|c| (c.op, c.ssess, c.key.clone()))
            .collect();
        all.extend(self.server_done.iter().cloned());
        for (op, ss, key) in all {
            match by_key.get(&key) {
                Some((ss0, op0)) if *ss0 != ss => {
                    let d = format!(
                        "sessions #{ss0} (op {op0}) and #{ss} (op {op}) completed with the same session key {}",
                        hex::encode(&key)
                    );
                    self.violate("duplicate_session_key", op, d);
                }
                Some(_) => {}
                None => {
                    by_key.insert(key, (ss, op));
                }
            }
        }
        RunResult {
            events: self.events,
            violations: self.viol,
            stats: self.stats,
            ssess: self.ssess,
            client_done: self.client_done,
            server_done: self.server_done,
            wire: self.wire,
            secrets: self.secrets,
        }
    }
}

pub fn errname(k: &ErrKind) -> String {
    match k {
        ErrKind::InvalidLogin => "InvalidLogin".into(),
        ErrKind::Serialization => "Serialization".into(),
        ErrKind::ReflectedValue => "ReflectedValue".into(),
        ErrKind::IdentityGroupElement => "IdentityGroupElement".into(),
        ErrKind::Library(s) => format!("Library({s})"),
        ErrKind::Serde(_) => "Serde".into(),
        ErrKind::Panic(_) => "Panic".into(),
    }
}

pub fn pname(p: &Predict) -> &'static str {
    match p {
        Predict::Accept => "accept",
        Predict::Reject { .. } => "reject",
        Predict::Any => "any",
    }
}

pub fn run_world(w: &World) -> RunResult {
    let s = crate::suite::suite_by_name(&w.suite)
        .unwrap_or_else(|| panic!("harness: unknown suite {}", w.suite));
    Exec::new(s, w).run()
}

/// SHA-256 over the complete event log (for the determinism self-test).
pub fn log_hash(r: &RunResult) -> [u8; 32] {
    use sha2::{Digest, Sha256};
    let mut h = Sha256::new();
    for e in &r.events {
        h.update(serde_json::to_vec(e).unwrap());
    }
    for v in &r.violations {
        h.update(serde_json::to_vec(v).unwrap());
    }
    h.finalize().into()
}

mod hexs;
mod rng;
mod seams;
mod suite;

fn main() {
    suite::install_panic_hook();
    for s in suite::all_suites() {
        let mut rng = rng::SimRng::new(1, "t");
        let l = s.lens();
        let setup = s.server_setup_new(&mut rng).unwrap();
        let (st, req) = s.client_reg_start(&mut rng, b"pw").unwrap();
        let resp = s.server_reg_start(&setup, &req, b"cid").unwrap();
        let out = s.client_reg_finish(&mut rng, &st, b"pw", &resp, &Default::default(), &suite::KsfArg::Absent).unwrap();
        let rec = s.server_reg_finish(&out.upload).unwrap();
        let (cl, creq) = s.client_login_start(&mut rng, b"pw").unwrap();
        let (sl, cresp) = s.server_login_start(&mut rng, &setup, Some(&rec), &creq, b"cid", None, &Default::default()).unwrap();
        let fin = s.client_login_finish(&cl, b"pw", &cresp, None, &Default::default(), &suite::KsfArg::Absent).unwrap();
        let sk = s.server_login_finish(&sl, &fin.fin).unwrap();
        assert_eq!(sk, fin.session_key);
        println!("{} {:?} ok", s.name(), l);
    }
}

mod catalog;
mod checks;
mod driver;
mod gen;
mod hexs {
    pub use sim_core::hexs::*;
}
mod layout;
mod rng {
    pub use sim_core::rng::*;
}
mod seams {
    pub use sim_core::seams::*;
}
mod spec;
mod spec_vectors;
mod suite;
mod world;

use std::time::Instant;

use driver::{Case, Ctx, ReplayFile, Tier};

fn usage() -> ! {
    eprintln!("usage: opaque-sim check <ID> [--tier quick|thorough] | replay <file> | selftest");
    std::process::exit(2)
}

fn level_of(id: &str) -> &'static str {
    match id {
        "C03" | "C04" | "C10" | "C11" | "C13" | "C15" | "C18" => "fault_enumeration",
        _ => "exploration",
    }
}

fn main() {
    suite::install_panic_hook();
    let args: Vec<String> = std::env::args().collect();
    if args.len() < 2 {
        usage()
    }
    let seed: u64 = std::env::var("VERIF_SEED")
        .ok()
        .and_then(|s| s.trim().parse().ok())
        .unwrap_or(1);
    let mut tier = match std::env::var("VERIF_TIER").ok().as_deref() {
        Some("thorough") => Tier::Thorough,
        _ => Tier::Quick,
    };
    let threads: usize = std::env::var("VERIF_THREADS")
        .ok()
        .and_then(|s| s.parse().ok())
        .unwrap_or_else(|| std::thread::available_parallelism().map(|n| n.get()).unwrap_or(4));
    let verif_dir = std::env::var("VERIF_DIR").unwrap_or_else(|_| "/verif".into());
    let mut i = 2;
    let mut pos: Vec<String> = vec![];
    while i < args.len() {
        match args[i].as_str() {
            "--tier" => {
                i += 1;
                tier = match args.get(i).map(|s| s.as_str()) {
                    Some("thorough") => Tier::Thorough,
                    Some("quick") => Tier::Quick,
                    _ => usage(),
                }
            }
            x => pos.push(x.to_string()),
        }
        i += 1;
    }
    match args[1].as_str() {
        "check" => {
            let id: &'static str = Box::leak(pos.first().cloned().unwrap_or_else(|| usage()).into_boxed_str());
            println!("VERIF_SEED={seed} tier={tier:?} threads={threads} check={id}");
            let ctx = Ctx { id, tier, seed, threads, start: Instant::now(), verif_dir: verif_dir.clone().into() };
            let rep = match checks::run_check(id, &ctx) {
                Some(r) => r,
                None => {
                    eprintln!("unknown check {id}");
                    std::process::exit(2)
                }
            };
            let code = driver::finish(&ctx, level_of(id), rep);
            std::process::exit(code)
        }
        "selftest" => {
            let per = pos.first().and_then(|x| x.parse().ok()).unwrap_or(2usize);
            let (d, n) = checks::selftest_digest(seed, threads, per);
            println!("SELFTEST seed={seed} worlds={n} digest={d}");
        }
        "vectors" => match spec_vectors::check_all(std::path::Path::new(&verif_dir)) {
            Ok(n) => println!("Model B reproduces all {n} RFC 9807 vectors"),
            Err(e) => {
                for l in e {
                    println!("MODEL-B-MISMATCH {l}");
                }
                std::process::exit(2)
            }
        },
        "replay" => {
            let path = pos.first().cloned().unwrap_or_else(|| usage());
            let rf: ReplayFile = serde_json::from_slice(&std::fs::read(&path).expect("read replay file")).expect("parse replay file");
            let vs = replay(&rf);
            if vs.is_empty() {
                println!("replay of {path}: no violation reproduced");
                std::process::exit(0)
            }
            for v in vs {
                println!("VIOLATION property={} replay={} clause={} :: {}", rf.property, path, v.0, v.1);
            }
            std::process::exit(1)
        }
        _ => usage(),
    }
}

/// Re-run one explicit case under its property's oracle: (clause, detail) list.
fn replay(rf: &ReplayFile) -> Vec<(String, String)> {
    match &rf.case {
        Case::World(w) if rf.property == "C17" => checks::c17::judge_world(w)
            .into_iter()
            .filter(|v| v.clause == rf.clause)
            .map(|v| (v.clause.to_string(), v.detail))
            .collect(),
        Case::World(w) if rf.property == "C18" => checks::c18::judge_world(w)
            .into_iter()
            .map(|v| (v.clause.to_string(), v.detail))
            .collect(),
        Case::World(w) if rf.property == "C13" => checks::c13::judge_world(w)
            .into_iter()
            .map(|v| (v.clause.to_string(), v.detail))
            .collect(),
        Case::World(w) => {
            let own: &[&str] = checks::own_clauses(rf.property.as_str());
            let mut r = world::run_world(w);
            if let Some(j) = checks::extra_judge(rf.property.as_str()) {
                let more = j(w, &r);
                r.violations.extend(more);
            }
            r.violations
                .into_iter()
                .filter(|v| own.is_empty() || own.contains(&v.clause))
                .map(|v| (v.clause.to_string(), v.detail))
                .collect()
        }
        Case::Decode { suite, kind, codec, bytes, expect, note } => {
            let r = match expect.as_str() {
                "canonical" if note == "serde" => checks::c10::replay_decode_serde(suite, *kind, *codec, &bytes.0),
                "canonical" => checks::c10::replay_decode(suite, *kind, &bytes.0, note),
                "reject" => checks::c11::replay_decode(suite, *kind, *codec, &bytes.0),
                "nopanic" => checks::c12::replay_decode(suite, *kind, *codec, &bytes.0, rf.seed),
                _ => None,
            };
            r.map(|d| vec![(rf.clause.clone(), d)]).unwrap_or_default()
        }
        Case::Custom { mode, params } if mode == "keyapi" => checks::c12::replay_keyapi(params)
            .map(|d| vec![(rf.clause.clone(), d)])
            .unwrap_or_default(),
        Case::Custom { mode, params } if mode == "unitksf" => checks::c15::replay_unitksf(params)
            .map(|d| vec![(rf.clause.clone(), d)])
            .unwrap_or_default(),
        Case::Custom { mode, params } if mode == "random_sk" => checks::c17::replay_random_sk(params)
            .map(|d| vec![(rf.clause.clone(), d)])
            .unwrap_or_default(),
        _ => vec![],
    }
}

//! Workload generation: parameter classes and a world builder. Everything is
//! drawn from a `Gen` stream derived by label from VERIF_SEED.

use crate::hexs::Hex;
use crate::rng::Gen;
use crate::suite::{Codec, KsfArg, KsfFamily, SuiteOps};
use crate::world::{Id, IdSpec, Op, Ref, Tape, WIds, World};

pub const PW_LENS: [usize; 12] = [0, 1, 2, 15, 16, 17, 31, 32, 255, 256, 1000, 65535];
pub const CRED_LENS: [usize; 6] = [0, 1, 4, 255, 256, 70000];
pub const ID_LENS: [usize; 5] = [0, 5, 255, 256, 65535];
pub const CTX_LENS: [usize; 4] = [0, 9, 256, 65535];

pub fn content(g: &mut Gen, len: usize, class: usize) -> Vec<u8> {
    match class % 6 {
        0 => (0..len).map(|i| b'a' + ((i * 7 + 3) % 26) as u8).collect(),
        1 => {
            // UTF-8 multi-byte text, truncated at a char boundary then padded
            let s = "pässwörd-密码-🔑-";
            let mut v: Vec<u8> = s.as_bytes().iter().cycle().take(len).copied().collect();
            while std::str::from_utf8(&v).is_err() && !v.is_empty() {
                let n = v.len();
                v[n - 1] = b'x';
                if n >= 2 && std::str::from_utf8(&v).is_err() {
                    v[n - 2] = b'x';
                }
                if n >= 3 && std::str::from_utf8(&v).is_err() {
                    v[n - 3] = b'x';
                }
            }
            v
        }
        2 => vec![0u8; len],
        3 => vec![0xFFu8; len],
        4 => {
            let mut v: Vec<u8> = (0..len).map(|i| b'A' + (i % 26) as u8).collect();
            if len > 0 {
                v[len / 2] = 0;
            }
            v
        }
        _ => g.bytes(len),
    }
}

pub fn gen_pw(g: &mut Gen, len_class: usize) -> Vec<u8> {
    let len = PW_LENS[len_class % PW_LENS.len()];
    let c = g.below(6);
    content(g, len, c)
}

/// Mostly-small password (for worlds where size is not the point).
pub fn small_pw(g: &mut Gen) -> Vec<u8> {
    let len = *g.pick(&[0usize, 1, 2, 8, 15, 16, 17, 31, 32, 40]);
    let c = g.below(6);
    content(g, len, c)
}

pub fn gen_cred(g: &mut Gen, class: usize) -> Vec<u8> {
    let len = CRED_LENS[class % CRED_LENS.len()];
    g.bytes(len)
}

pub fn small_cred(g: &mut Gen) -> Vec<u8> {
    let len = *g.pick(&[0usize, 1, 4, 9, 32]);
    g.bytes(len)
}

pub fn via(g: &mut Gen) -> Codec {
    match g.below(10) {
        0..=4 => Codec::Mem,
        5..=7 => Codec::Native,
        8 => Codec::Bincode,
        _ => Codec::Json,
    }
}

pub fn default_ksf_explicit(fam: KsfFamily) -> KsfArg {
    match fam {
        KsfFamily::Sim => KsfArg::Sim(0),
        KsfFamily::Identity => KsfArg::Identity,
        KsfFamily::Argon2 => KsfArg::Argon2Default,
    }
}

pub struct RegIds {
    pub st: Id,
    pub req: Id,
    pub resp: Id,
    pub upload: Id,
    pub record: Id,
}

pub struct LoginIds {
    pub cst: Id,
    pub req: Id,
    pub sst: Id,
    pub resp: Id,
    pub fin: Id,
}

pub struct WB {
    pub w: World,
    next: Id,
    tapes: u32,
}

impl WB {
    pub fn new(s: &dyn SuiteOps, seed: u64, index: u64, note: &str) -> WB {
        WB {
            w: World {
                suite: s.name().to_string(),
                seed,
                index,
                note: note.to_string(),
                ops: vec![],
                faults: vec![],
                knobs: Default::default(),
            },
            next: 0,
            tapes: 0,
        }
    }
    /// continue numbering after another builder's ids/tapes
    pub fn bump(&mut self, n: u32) {
        self.next += n;
        self.tapes += n;
    }
    pub fn id(&mut self) -> Id {
        self.next += 1;
        self.next
    }
    pub fn tape(&mut self, what: &str) -> Tape {
        self.tapes += 1;
        Tape::Own(format!("{what}/{}", self.tapes))
    }
    pub fn push(&mut self, op: Op) {
        self.w.ops.push(op)
    }
    pub fn setup(&mut self, hsm: bool) -> Id {
        let out = self.id();
        let tape = self.tape("setup");
        self.push(Op::NewSetup { out, tape, hsm });
        out
    }
    /// The four registration ops as a list (so callers can interleave them).
    #[allow(clippy::too_many_arguments)]
    pub fn reg_ops(
        &mut self,
        g: &mut Gen,
        setup: Id,
        pw_start: &[u8],
        pw_finish: &[u8],
        cred: &[u8],
        ids: WIds,
        ksf: KsfArg,
        honest_codecs: bool,
    ) -> (RegIds, Vec<Op>) {
        let r = RegIds {
            st: self.id(),
            req: self.id(),
            resp: self.id(),
            upload: self.id(),
            record: self.id(),
        };
        let mut v = |g: &mut Gen| if honest_codecs { via(g) } else { Codec::Mem };
        let ops = vec![
            Op::RegStart {
                st: r.st,
                msg: r.req,
                tape: self.tape("regstart"),
                pw: Hex(pw_start.to_vec()),
            },
            Op::RegRespond {
                out: r.resp,
                setup: Ref::via(setup, v(g)),
                req: Ref::via(r.req, v(g)),
                cred: Hex(cred.to_vec()),
            },
            Op::RegFinish {
                out: r.upload,
                tape: self.tape("regfinish"),
                st: Ref::via(r.st, v(g)),
                pw: Hex(pw_finish.to_vec()),
                resp: Ref::via(r.resp, v(g)),
                ids,
                ksf,
            },
            Op::RegStore {
                out: r.record,
                upload: Ref::via(r.upload, v(g)),
            },
        ];
        (r, ops)
    }

    /// The four login ops of one honest session, as a list.
    #[allow(clippy::too_many_arguments)]
    pub fn login_ops(
        &mut self,
        g: &mut Gen,
        setup: Id,
        record: Option<Id>,
        pw_start: &[u8],
        pw_finish: &[u8],
        cred: &[u8],
        sctx: Option<Vec<u8>>,
        cctx: Option<Vec<u8>>,
        sids: WIds,
        cids: WIds,
        ksf: KsfArg,
        honest_codecs: bool,
    ) -> (LoginIds, Vec<Op>) {
        let l = LoginIds {
            cst: self.id(),
            req: self.id(),
            sst: self.id(),
            resp: self.id(),
            fin: self.id(),
        };
        let mut v = |g: &mut Gen| if honest_codecs { via(g) } else { Codec::Mem };
        let ops = vec![
            Op::LoginStart {
                st: l.cst,
                msg: l.req,
                tape: self.tape("loginstart"),
                pw: Hex(pw_start.to_vec()),
            },
            Op::LoginRespond {
                st: l.sst,
                msg: l.resp,
                tape: self.tape("loginrespond"),
                setup: Ref::via(setup, v(g)),
                record: record.map(|r| Ref::via(r, v(g))),
                req: Ref::via(l.req, v(g)),
                cred: Hex(cred.to_vec()),
                ctx: sctx.map(Hex),
                ids: sids,
            },
            Op::LoginFinish {
                out: l.fin,
                st: Ref::via(l.cst, v(g)),
                pw: Hex(pw_finish.to_vec()),
                resp: Ref::via(l.resp, v(g)),
                ctx: cctx.map(Hex),
                ids: cids,
                ksf,
            },
            Op::ServerFinish {
                st: Ref::via(l.sst, v(g)),
                fin: Ref::via(l.fin, v(g)),
            },
        ];
        (l, ops)
    }

    /// Interleave several op sequences in a seeded random order that keeps
    /// each sequence's internal order.
    pub fn interleave(&mut self, g: &mut Gen, mut threads: Vec<Vec<Op>>) {
        for t in threads.iter_mut() {
            t.reverse();
        }
        loop {
            let live: Vec<usize> = (0..threads.len()).filter(|i| !threads[*i].is_empty()).collect();
            if live.is_empty() {
                break;
            }
            let t = *g.pick(&live);
            let op = threads[t].pop().unwrap();
            self.push(op);
        }
    }
}

/// A logical identity: how each of the three call sites may spell it so that
/// the *effective* value agrees.
#[derive(Clone, Debug)]
pub enum LogicalId {
    Default,
    Bytes(Vec<u8>),
}

pub fn gen_logical_id(g: &mut Gen, class: usize) -> LogicalId {
    // classes: 0,1 default; then explicit lengths
    match class % 7 {
        0 | 1 => LogicalId::Default,
        k => LogicalId::Bytes({
            let len = ID_LENS[(k - 2) % ID_LENS.len()];
            let c = g.below(6);
            content(g, len, c)
        }),
    }
}

/// Spell a logical client identity at a site where the record exists (login).
pub fn spell_client(g: &mut Gen, l: &LogicalId, record: Id) -> IdSpec {
    match l {
        LogicalId::Default => {
            if g.chance(1, 3) {
                IdSpec::ClientPkOf(record)
            } else {
                IdSpec::Absent
            }
        }
        LogicalId::Bytes(b) => IdSpec::Bytes(Hex(b.clone())),
    }
}

pub fn spell_server(g: &mut Gen, l: &LogicalId, setup: Id) -> IdSpec {
    match l {
        LogicalId::Default => {
            if g.chance(1, 3) {
                IdSpec::ServerPkOf(setup)
            } else {
                IdSpec::Absent
            }
        }
        LogicalId::Bytes(b) => IdSpec::Bytes(Hex(b.clone())),
    }
}

pub fn spell_ctx(g: &mut Gen, c: &[u8]) -> Option<Vec<u8>> {
    if c.is_empty() && g.chance(1, 2) {
        None
    } else {
        Some(c.to_vec())
    }
}

pub fn gen_ctx(g: &mut Gen, class: usize) -> Vec<u8> {
    let len = CTX_LENS[class % CTX_LENS.len()];
    let c = g.below(6);
    content(g, len, c)
}

/// Logical KSF choice and its spellings.
pub fn gen_ksf(g: &mut Gen, fam: KsfFamily, cheap_only: bool) -> KsfArg {
    match fam {
        KsfFamily::Sim => {
            if g.chance(1, 2) {
                KsfArg::Absent
            } else {
                KsfArg::Sim(g.below(4) as u32)
            }
        }
        KsfFamily::Identity => KsfArg::Absent,
        KsfFamily::Argon2 => {
            if cheap_only || g.chance(3, 4) {
                KsfArg::Argon2 { m: 8, t: 1, p: 1 }
            } else {
                KsfArg::Absent
            }
        }
    }
}

/// Another spelling of the same effective KSF.
pub fn respell_ksf(g: &mut Gen, k: &KsfArg, fam: KsfFamily) -> KsfArg {
    match (k, fam) {
        (KsfArg::Absent, f) if g.chance(1, 2) => default_ksf_explicit(f),
        (KsfArg::Sim(0), _) | (KsfArg::Identity, _) | (KsfArg::Argon2Default, _) if g.chance(1, 2) => KsfArg::Absent,
        (k, _) => k.clone(),
    }
}

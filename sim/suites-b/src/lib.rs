//! Macro-stamped cipher-suite instantiations (see sim-core::suite).
#![allow(clippy::all)]
use sim_core::rng::SimRng;
use sim_core::seams::{SimHsm, SimKsf};
use sim_core::suite::*;
use sim_core::{dec_arm, enc_arm, suite};

use generic_array::typenum::Unsigned;
use opaque_ke::errors::ProtocolError;
use opaque_ke::key_exchange::group::KeGroup;
use opaque_ke::key_exchange::tripledh::TripleDh;
use opaque_ke::keypair::{KeyPair, SecretKey};
use opaque_ke::{
    CipherSuite, ClientLogin, ClientLoginFinishParameters, ClientRegistration,
    ClientRegistrationFinishParameters, CredentialFinalization, CredentialRequest,
    CredentialResponse, RegistrationRequest, RegistrationResponse, RegistrationUpload, ServerLogin,
    ServerLoginStartParameters, ServerRegistration, ServerSetup,
};

#[allow(dead_code)]
type Ris = opaque_ke::Ristretto255;
#[allow(dead_code)]
type P256 = p256::NistP256;
#[allow(dead_code)]
type P384 = p384::NistP384;
#[allow(dead_code)]
type P521 = p521::NistP521;
#[allow(dead_code)]
type X25519 = opaque_ke::Curve25519;
#[allow(dead_code)]
type IdKsf = opaque_ke::ksf::Identity;
#[allow(dead_code)]
type Argon = argon2::Argon2<'static>;

suite!(SP384Ris, "p384/ristretto255/sim", P384, Ris, SimKsf);
suite!(SP384P256, "p384/p256/sim", P384, P256, SimKsf);
suite!(SP384P384, "p384/p384/sim", P384, P384, SimKsf);
suite!(SP384P521, "p384/p521/sim", P384, P521, SimKsf);
suite!(SP384X, "p384/curve25519/sim", P384, X25519, SimKsf);
suite!(SP521Ris, "p521/ristretto255/sim", P521, Ris, SimKsf);
suite!(SP521P256, "p521/p256/sim", P521, P256, SimKsf);
suite!(SP521P384, "p521/p384/sim", P521, P384, SimKsf);
suite!(SP521P521, "p521/p521/sim", P521, P521, SimKsf);
suite!(SP521X, "p521/curve25519/sim", P521, X25519, SimKsf);

pub static SUITES: [&dyn SuiteOps; 10] = [&SP384Ris, &SP384P256, &SP384P384, &SP384P521, &SP384X, &SP521Ris, &SP521P256, &SP521P384, &SP521P521, &SP521X];
